#!/bin/bash
# Builds the verifier offline from the files on disk.
cd "$(dirname "$0")"
export GOFLAGS=-mod=mod GOPROXY=off GOSUMDB=off GOTOOLCHAIN=local
mkdir -p bin evidence out/replays .work
cd govc && go build -o ../bin/govc .
