package gkvlite

// BOUNDED stand-in / cross-check for C14 (DESIGN 10.3): the contracts of the functions behind C14 are proved per
// call, with the slot-denotation postulates and the library contracts as assumptions. This harness evaluates
// the same statements END TO END on the real code against independent oracles, over a fixed finite space --
// a check of those assumptions, labelled bounded and never counted as proved.

import (
	"fmt"
	"testing"
)

func TestBounded_C14_EndToEnd(t *testing.T) {
	const test = "TestBounded_C14_EndToEnd"
	ok := t.Run("oracle", func(t *testing.T) { rpScan(t); rpFlush(t) })
	if !ok {
		fmt.Printf("BOUNDED-VIOLATION {\"test\":%q,\"input\":{},\"what\":\"the end-to-end oracle failed; the failing step is in the harness output\"}\n", test)
	}
	fmt.Printf("BOUNDED-CASES test=%s cases=%d space=%s\n", test, rpCases, "flushed files of several histories with junk tails (incl. magic markers), truncations, the smallest root record, and root records ending just past 512/4096-byte boundaries followed by the first bytes of a later flush: the store opens at the greatest complete, self-consistent root record found by an independent validator, or reports that there is none; every Flush appends a complete root record")
}
