package gkvlite

// BOUNDED stand-in for C18 (DESIGN section 10.3): the iterator's producer/consumer handshake uses
// goroutines and channels, which are outside the verifier's subset. This harness runs the REAL
// iterators for every collection size up to a bound and every position at which the consumer
// stops, and the REAL visits with re-entrant callbacks, each under a watchdog. The Go scheduler's
// interleavings are NOT enumerated (each case is repeated a few times): bounded, not a proof.

import (
	"encoding/json"
	"fmt"
	"os"
	"testing"
	"time"
)

type c18Input struct {
	Kind string `json:"kind"` // iter-asc | iter-desc | reentrant-read | reentrant-write
	From int    `json:"from"` // iterators: -1 = from the very beginning; k >= 0 = the target is the k-th key itself
	N    int    `json:"n"`
	Stop int    `json:"stop"` // number of Next() calls before Close(); N+1 = run to exhaustion
	Val  bool   `json:"withValue"`
}

func c18Build(n int) (*Store, *Collection) {
	s, _ := NewStore(nil)
	c := s.SetCollection("x", nil)
	for i := 0; i < n; i++ {
		c.Set([]byte(fmt.Sprintf("%04d", i)), []byte(fmt.Sprintf("v%d", i)))
	}
	return s, c
}

func c18Refs(c *Collection) int64 {
	c.rootLock.Lock()
	defer c.rootLock.Unlock()
	return c.root.refs
}

// run f under a watchdog; a case that does not finish is reported as a deadlock
func c18Watch(d time.Duration, f func() string) string {
	done := make(chan string, 1)
	go func() {
		defer func() {
			if r := recover(); r != nil {
				done <- fmt.Sprintf("panic: %v", r)
			}
		}()
		done <- f()
	}()
	select {
	case w := <-done:
		return w
	case <-time.After(d):
		return "did not finish within " + d.String() + " (deadlock or lost wake-up)"
	}
}

func c18Iter(in c18Input) string {
	_, c := c18Build(in.N)
	base := c18Refs(c)
	var it ItemIterator
	var want []string
	if in.Kind == "iter-asc" {
		lo, target := 0, []byte("")
		if in.From >= 0 {
			lo, target = in.From, []byte(fmt.Sprintf("%04d", in.From))
		}
		it = c.IterateAscend(target, in.Val)
		for i := lo; i < in.N; i++ {
			want = append(want, fmt.Sprintf("%04d", i))
		}
	} else {
		hi, target := in.N-1, []byte("9999")
		if in.From >= 0 {
			hi, target = in.From-1, []byte(fmt.Sprintf("%04d", in.From)) // descending visits are exclusive
		}
		it = c.IterateDescend(target, in.Val)
		for i := hi; i >= 0; i-- {
			want = append(want, fmt.Sprintf("%04d", i))
		}
	}
	avail := len(want)
	got := 0
	for got < in.Stop {
		if !it.Next() {
			break
		}
		r := it.Result()
		if r == nil || got >= len(want) || string(r.Key) != want[got] {
			return fmt.Sprintf("item %d: got %v, want %v", got, r, want)
		}
		if in.Val && r.Val == nil {
			return fmt.Sprintf("item %d delivered without its value", got)
		}
		got++
	}
	if in.Stop <= avail && got != in.Stop {
		return fmt.Sprintf("iterator ended after %d items, %d were available", got, avail)
	}
	if in.Stop > avail && got != avail {
		return fmt.Sprintf("iterator delivered %d of %d items", got, avail)
	}
	it.Close()
	it.Close() // idempotent
	if it.Next() {
		return "Next() returned true after Close()"
	}
	// the producer must exit and release the version it pinned; give a producer that has not even
	// started yet the time to run into whatever it is going to run into
	time.Sleep(8 * time.Millisecond)
	deadline := time.Now().Add(2 * time.Second)
	for {
		if c18Refs(c) == base {
			time.Sleep(4 * time.Millisecond)
			if c18Refs(c) == base {
				return ""
			}
		}
		if time.Now().After(deadline) {
			return fmt.Sprintf("the producer still pins the version %v after Close() (refs %d, baseline %d): goroutine leaked", 2*time.Second, c18Refs(c), base)
		}
		time.Sleep(time.Millisecond)
	}
}

func c18Reentrant(in c18Input) string {
	_, c := c18Build(in.N)
	seen := 0
	err := c.VisitItemsAscend([]byte(""), in.Val, func(i *Item) bool {
		seen++
		// read operations from inside a visitor
		if it, err := c.GetItem(i.Key, true); err != nil || it == nil {
			return false
		}
		if _, err := c.MinItem(false); err != nil {
			return false
		}
		inner := 0
		c.VisitItemsDescend([]byte("9999"), false, func(*Item) bool { inner++; return inner < 3 })
		if in.Kind == "reentrant-write" {
			// the mutating goroutine may also mutate from inside its visitor
			if err := c.Set([]byte(fmt.Sprintf("w%04d", seen)), []byte("x")); err != nil {
				return false
			}
			if seen%2 == 0 {
				c.Delete([]byte(fmt.Sprintf("w%04d", seen-1)))
			}
		}
		return seen <= in.Stop
	})
	if err != nil {
		return "visit returned an error: " + err.Error()
	}
	if in.N > 0 && seen == 0 {
		return "visitor was never called"
	}
	return ""
}

func c18Space() []c18Input {
	top := 8
	if os.Getenv("BOUNDED_TIER") == "thorough" {
		top = 24
	}
	var out []c18Input
	for n := 0; n <= top; n++ {
		for stop := 0; stop <= n+1; stop++ {
			for _, k := range []string{"iter-asc", "iter-desc"} {
				for _, v := range []bool{false, true} {
					out = append(out, c18Input{Kind: k, From: -1, N: n, Stop: stop, Val: v})
					if !v && n > 0 && stop <= 2 {
						// start exactly at an existing key, for every key (early stops are where a
						// producer that is called again after "stop" gets stuck)
						for from := 0; from < n; from++ {
							out = append(out, c18Input{Kind: k, From: from, N: n, Stop: stop, Val: v})
						}
					}
				}
			}
		}
		for _, stop := range []int{0, 1, n / 2, n + 5} {
			out = append(out, c18Input{Kind: "reentrant-read", N: n, Stop: stop, Val: true})
			out = append(out, c18Input{Kind: "reentrant-write", N: n, Stop: stop, Val: false})
		}
	}
	return out
}

func TestBounded_C18_Iterators(t *testing.T) {
	const test = "TestBounded_C18_Iterators"
	space := c18Space()
	reps := 2
	if r := os.Getenv("BOUNDED_REPLAY"); r != "" {
		var v struct {
			Test  string   `json:"test"`
			Input c18Input `json:"input"`
		}
		if json.Unmarshal([]byte(r), &v) != nil || v.Test != test {
			return
		}
		space, reps = []c18Input{v.Input}, 5
	}
	bad := 0
	for _, in := range space {
		for rep := 0; rep < reps; rep++ {
			in := in
			what := c18Watch(5*time.Second, func() string {
				if in.Kind == "iter-asc" || in.Kind == "iter-desc" {
					return c18Iter(in)
				}
				return c18Reentrant(in)
			})
			if what != "" {
				b, _ := json.Marshal(map[string]interface{}{"test": test, "input": in, "what": what})
				fmt.Printf("BOUNDED-VIOLATION %s\n", b)
				t.Errorf("%+v: %s", in, what)
				bad++
				break
			}
		}
		if bad >= 6 {
			break // a broken handshake leaves goroutines behind; do not pile them up
		}
	}
	fmt.Printf("BOUNDED-CASES test=%s cases=%d space=collection sizes 0..%d x consumer stops after 0..n+1 Next() calls x {ascending, descending} x {key-only, with value}, plus visits whose visitor re-enters reads (and, from the mutating goroutine, Set/Delete); %d repetitions each under a 5 s watchdog; scheduler interleavings are not enumerated\n", test, len(space), space[len(space)-1].N, reps)
}
