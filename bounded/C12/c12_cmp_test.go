package gkvlite

// BOUNDED cross-check for C12 (not generated): "SetCollection ... on an existing name keeps all items and only
// installs the new comparator", for comparators that are closures of ONE function literal (same code, different
// captured state), method values, and plain functions, on collections of 0..2 items, in memory and re-opened.

import (
	"bytes"
	"encoding/json"
	"fmt"
	"os"
	"testing"
)

type c12CmpInput struct {
	Kind   string `json:"kind"`   // factory | method | plain
	Items  int    `json:"items"`  // items present when the comparator is replaced (all with equal keys order under both)
	Reopen bool   `json:"reopen"` // flush and re-open before replacing
}

type c12Collation struct{ desc bool }

func (c c12Collation) compare(a, b []byte) int {
	if c.desc {
		return bytes.Compare(b, a)
	}
	return bytes.Compare(a, b)
}

func c12Factory(desc bool) KeyCompare {
	return func(a, b []byte) int {
		if desc {
			return bytes.Compare(b, a)
		}
		return bytes.Compare(a, b)
	}
}
func c12Desc(a, b []byte) int { return bytes.Compare(b, a) }

func c12CmpRun(in c12CmpInput) (what string) {
	defer func() {
		if r := recover(); r != nil {
			what = fmt.Sprintf("panic: %v", r)
		}
	}()
	var asc, desc KeyCompare
	switch in.Kind {
	case "factory":
		asc, desc = c12Factory(false), c12Factory(true)
	case "method":
		asc, desc = c12Collation{false}.compare, c12Collation{true}.compare
	default:
		asc, desc = bytes.Compare, c12Desc
	}
	f := &c12MemFile{}
	s, err := NewStore(f)
	if err != nil {
		return err.Error()
	}
	c := s.SetCollection("x", asc)
	// a single key keeps the tree consistent under both orders
	if in.Items > 0 {
		c.Set([]byte("m"), []byte("v"))
	}
	if in.Reopen {
		if err := s.Flush(); err != nil {
			return err.Error()
		}
		if s, err = NewStore(f); err != nil {
			return err.Error()
		}
		c = s.SetCollection("x", asc) // comparators are not persisted: re-install
	}
	c2 := s.SetCollection("x", desc)
	_ = c // (whether the handle is a new object is not part of the property: only the comparator and the items are)
	if in.Items > 0 {
		if v, err := c2.Get([]byte("m")); err != nil || string(v) != "v" {
			return fmt.Sprintf("the item present before the comparator was replaced is gone: %q %v", v, err)
		}
		c2.Delete([]byte("m"))
	}
	for _, k := range []string{"a", "b", "c"} {
		if err := c2.Set([]byte(k), []byte(k)); err != nil {
			return err.Error()
		}
	}
	got := ""
	first, _ := c2.MinItem(false) // (the empty target is not the least position under every comparator)
	if first == nil {
		return "MinItem finds nothing after three insertions"
	}
	c2.VisitItemsAscend(first.Key, false, func(i *Item) bool { got += string(i.Key); return true })
	if got != "cba" {
		return fmt.Sprintf("after SetCollection(x, descending comparator) an ascending visit yields %q, want \"cba\" (the new comparator was not installed)", got)
	}
	if mi, _ := c2.MinItem(false); mi == nil || string(mi.Key) != "c" {
		return "MinItem does not use the new comparator"
	}
	if names := s.GetCollectionNames(); len(names) != 1 || names[0] != "x" {
		return fmt.Sprintf("collection names %v", names)
	}
	return ""
}

func TestBounded_C12_Comparators(t *testing.T) {
	const test = "TestBounded_C12_Comparators"
	var space []c12CmpInput
	for _, k := range []string{"factory", "method", "plain"} {
		for _, n := range []int{0, 1} {
			for _, re := range []bool{false, true} {
				space = append(space, c12CmpInput{Kind: k, Items: n, Reopen: re})
			}
		}
	}
	if r := os.Getenv("BOUNDED_REPLAY"); r != "" {
		var v struct {
			Test  string      `json:"test"`
			Input c12CmpInput `json:"input"`
		}
		if json.Unmarshal([]byte(r), &v) != nil || v.Test != test {
			return
		}
		space = []c12CmpInput{v.Input}
	}
	for _, in := range space {
		if what := c12CmpRun(in); what != "" {
			b, _ := json.Marshal(map[string]interface{}{"test": test, "input": in, "what": what})
			fmt.Printf("BOUNDED-VIOLATION %s\n", b)
			t.Errorf("%+v: %s", in, what)
		}
	}
	fmt.Printf("BOUNDED-CASES test=%s cases=%d space=comparator kinds {two closures of one function literal, two method values of one method, plain functions} x {0,1} items present x {in memory, flushed and re-opened}: SetCollection on the existing name must hand back a handle that orders by the NEW comparator and keeps the items\n", test, len(space))
}
