package gkvlite

// BOUNDED stand-in / cross-check for C01 (DESIGN 10.3): the contracts of the functions behind C01 are proved per
// call, with the slot-denotation postulates and the library contracts as assumptions. This harness evaluates
// the same statements END TO END on the real code against independent oracles, over a fixed finite space --
// a check of those assumptions, labelled bounded and never counted as proved.

import (
	"fmt"
	"testing"
)

func TestBounded_C01_EndToEnd(t *testing.T) {
	const test = "TestBounded_C01_EndToEnd"
	ok := t.Run("oracle", func(t *testing.T) { rpMap(t) })
	if !ok {
		fmt.Printf("BOUNDED-VIOLATION {\"test\":%q,\"input\":{},\"what\":\"the end-to-end oracle failed; the failing step is in the harness output\"}\n", test)
	}
	fmt.Printf("BOUNDED-CASES test=%s cases=%d space=%s\n", test, rpCases, "12 pseudo-random histories of 60 steps (Set with rising or arbitrary priorities, Delete, Flush, EvictSomeItems, close + re-open; default and reverse comparator) against a map model; after every step: search order, exact count and byte total at every node, heap order while no key was overwritten with a lower priority, GetTotals, lookups of present and absent keys, Min/Max, ascending and descending visits from every key and from absent targets with early stops, reported depths; plus rejected items under three callback sets")
}
