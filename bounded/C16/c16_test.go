package gkvlite

// BOUNDED stand-in for C16 (DESIGN section 9): Len's count and the two block visits thread closure
// state through the visit recursion, which a first-order per-function contract cannot carry. This
// harness runs the REAL functions for every collection size of a stated finite set and compares the
// multiset of keys handed to the visitor with the collection's keys. Bounded, not a proof.

import (
	"encoding/json"
	"fmt"
	"os"
	"testing"
)

type c16Input struct {
	N    int    `json:"n"`
	Perm string `json:"perm,omitempty"`
}

func c16Sizes() []int {
	var ns []int
	top := 48
	extra := []int{1023, 1024, 1025, 2047, 2048, 2049}
	if os.Getenv("BOUNDED_TIER") == "thorough" {
		top = 200
		extra = append(extra, 1026, 2050, 3071, 3072, 3073, 4095, 4096, 4097)
	}
	for n := 0; n <= top; n++ {
		ns = append(ns, n)
	}
	return append(ns, extra...)
}

func c16Replay(test string) (c16Input, bool) {
	var in c16Input
	r := os.Getenv("BOUNDED_REPLAY")
	if r == "" {
		return in, false
	}
	var v struct {
		Test  string   `json:"test"`
		Input c16Input `json:"input"`
	}
	if json.Unmarshal([]byte(r), &v) != nil || v.Test != test {
		return in, false
	}
	return v.Input, true
}

func c16Report(t *testing.T, test string, in c16Input, what string) {
	b, _ := json.Marshal(map[string]interface{}{"test": test, "input": in, "what": what})
	fmt.Printf("BOUNDED-VIOLATION %s\n", b)
	t.Errorf("%s %+v: %s", test, in, what)
}

func c16Build(n int) (*Store, *Collection, error) {
	s, err := NewStore(nil)
	if err != nil {
		return nil, nil, err
	}
	c := s.SetCollection("x", nil)
	for i := 0; i < n; i++ {
		if err := c.Set([]byte(fmt.Sprintf("%06d", i)), []byte("v")); err != nil {
			return nil, nil, err
		}
	}
	return s, c, nil
}

func c16Check(seen map[string]int, n int) string {
	for i := 0; i < n; i++ {
		k := fmt.Sprintf("%06d", i)
		if seen[k] != 1 {
			return fmt.Sprintf("key %s was presented %d times (expected exactly once)", k, seen[k])
		}
	}
	if len(seen) != n {
		return fmt.Sprintf("%d distinct keys presented, collection has %d", len(seen), n)
	}
	return ""
}

// run f with a guard that turns a panic into a reported case
func c16Guard(f func() string) (what string) {
	defer func() {
		if r := recover(); r != nil {
			what = fmt.Sprintf("panic: %v", r)
		}
	}()
	return f()
}

func TestBounded_C16_Len(t *testing.T) {
	const test = "TestBounded_C16_Len"
	sizes := c16Sizes()
	if in, ok := c16Replay(test); ok {
		sizes = []int{in.N}
	} else if os.Getenv("BOUNDED_REPLAY") != "" {
		return
	}
	cases := 0
	for _, n := range sizes {
		cases++
		in := c16Input{N: n}
		what := c16Guard(func() string {
			_, c, err := c16Build(n)
			if err != nil {
				return "build: " + err.Error()
			}
			l, err := c.Len()
			if err != nil {
				return "Len returned an error: " + err.Error()
			}
			if l != int64(n) {
				return fmt.Sprintf("Len() = %d for a collection of %d items", l, n)
			}
			return ""
		})
		if what != "" {
			c16Report(t, test, in, what)
		}
	}
	fmt.Printf("BOUNDED-CASES test=%s cases=%d space=every collection size n in %v (keys %%06d, random priorities, memory-only store)\n", test, cases, c16Summary(sizes))
}

func c16Summary(sizes []int) string {
	if len(sizes) > 12 {
		return fmt.Sprintf("0..%d and %v", sizes[0]+len(sizes)-1-countAbove(sizes, 1000), sizes[len(sizes)-countAbove(sizes, 1000):])
	}
	return fmt.Sprint(sizes)
}

func countAbove(s []int, x int) int {
	k := 0
	for _, v := range s {
		if v > x {
			k++
		}
	}
	return k
}

var c16Perms = map[string]BlockMangler{
	"none":     nil,
	"identity": func(b [][]byte) [][]byte { return b },
	"reverse": func(b [][]byte) [][]byte {
		for i, j := 0, len(b)-1; i < j; i, j = i+1, j-1 {
			b[i], b[j] = b[j], b[i]
		}
		return b
	},
	"rotate": func(b [][]byte) [][]byte {
		if len(b) < 2 {
			return b
		}
		return append(b[1:], b[0])
	},
	"random": RandBm,
}

func TestBounded_C16_BlockEx(t *testing.T) {
	const test = "TestBounded_C16_BlockEx"
	sizes := c16Sizes()
	perms := []string{"none", "identity", "reverse", "rotate", "random", "reverse+nested"}
	if in, ok := c16Replay(test); ok {
		sizes, perms = []int{in.N}, []string{in.Perm}
	} else if os.Getenv("BOUNDED_REPLAY") != "" {
		return
	}
	cases := 0
	for _, n := range sizes {
		for _, pn := range perms {
			cases++
			in := c16Input{N: n, Perm: pn}
			what := c16Guard(func() string {
				_, c, err := c16Build(n)
				if err != nil {
					return "build: " + err.Error()
				}
				seen := map[string]int{}
				if pn == "reverse+nested" {
					// visitors may call read operations (C18): the visitor of the outer enumeration runs, once,
					// two complete inner enumerations of the same collection; all three must be exactly-once
					if n > 64 {
						return ""
					}
					calls, inner := 0, ""
					err = c.VisitItemsAscendBlockEx(false, c16Perms["reverse"], func(i *Item, depth uint64) bool {
						seen[string(i.Key)]++
						calls++
						if calls == 2 {
							s1, s2 := map[string]int{}, map[string]int{}
							e1 := c.VisitItemsAscendBlockEx(false, c16Perms["reverse"], func(j *Item, d uint64) bool { s1[string(j.Key)]++; return true })
							e2 := c.VisitItemsRandom(func(j *Item, d uint64) bool { s2[string(j.Key)]++; return true })
							if e1 != nil || e2 != nil {
								inner = fmt.Sprint("inner enumeration failed: ", e1, e2)
							} else if w := c16Check(s1, n); w != "" {
								inner = "inner VisitItemsAscendBlockEx: " + w
							} else if w := c16Check(s2, n); w != "" {
								inner = "inner VisitItemsRandom: " + w
							}
						}
						return true
					})
					if inner != "" {
						return inner
					}
					if err != nil && n > 0 {
						return "VisitItemsAscendBlockEx returned an error: " + err.Error()
					}
					if w := c16Check(seen, n); w != "" {
						return "outer enumeration with inner enumerations run from its visitor: " + w
					}
					return ""
				}
				err = c.VisitItemsAscendBlockEx(false, c16Perms[pn], func(i *Item, depth uint64) bool {
					seen[string(i.Key)]++
					return true
				})
				if err != nil && n > 0 {
					return "VisitItemsAscendBlockEx returned an error: " + err.Error()
				}
				return c16Check(seen, n)
			})
			if what != "" {
				c16Report(t, test, in, what)
			}
		}
	}
	fmt.Printf("BOUNDED-CASES test=%s cases=%d space=sizes %v x block permutations %v\n", test, cases, c16Summary(sizes), perms)
}

func TestBounded_C16_Random(t *testing.T) {
	const test = "TestBounded_C16_Random"
	sizes := c16Sizes()
	if in, ok := c16Replay(test); ok {
		sizes = []int{in.N}
	} else if os.Getenv("BOUNDED_REPLAY") != "" {
		return
	}
	cases := 0
	for _, n := range sizes {
		cases++
		in := c16Input{N: n}
		what := c16Guard(func() string {
			_, c, err := c16Build(n)
			if err != nil {
				return "build: " + err.Error()
			}
			seen := map[string]int{}
			err = c.VisitItemsRandom(func(i *Item, depth uint64) bool {
				seen[string(i.Key)]++
				return true
			})
			if err != nil && n > 0 {
				return "VisitItemsRandom returned an error: " + err.Error()
			}
			return c16Check(seen, n)
		})
		if what != "" {
			c16Report(t, test, in, what)
		}
	}
	fmt.Printf("BOUNDED-CASES test=%s cases=%d space=sizes %v (the block order is shuffled by the function itself)\n", test, cases, c16Summary(sizes))
}
