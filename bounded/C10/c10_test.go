package gkvlite

// BOUNDED stand-in for the whole-heap part of C10 / C04 / C12 (DESIGN 5.C10, 10.3): "no node of a live
// version is ever recycled" ties the proved local obligations together by a paper argument only. This
// harness runs pseudo-random histories on the REAL code -- mutations, snapshots (and snapshots of
// snapshots) opened and closed in any order, replacing and removing collections, Flush, eviction, and
// churn in a second store that shares the process-wide free lists -- and re-reads EVERY open handle
// after EVERY step against its own map model. Bounded, not a proof.

import (
	"encoding/json"
	"fmt"
	"os"
	"sort"
	"testing"
	"time"
)

type c10Input struct {
	Seed  int  `json:"seed"`
	Steps int  `json:"steps"`
	File  bool `json:"file"`
}

// an in-memory StoreFile (nothing is left behind in the file system, whatever happens to the run)
type c10MemFile struct{ b []byte }

func (f *c10MemFile) ReadAt(p []byte, off int64) (int, error) {
	if off < 0 || off >= int64(len(f.b)) {
		return 0, fmt.Errorf("EOF")
	}
	n := copy(p, f.b[off:])
	if n < len(p) {
		return n, fmt.Errorf("EOF")
	}
	return n, nil
}
func (f *c10MemFile) WriteAt(p []byte, off int64) (int, error) {
	if need := int(off) + len(p); need > len(f.b) {
		f.b = append(f.b, make([]byte, need-len(f.b))...)
	}
	copy(f.b[off:], p)
	return len(p), nil
}
func (f *c10MemFile) Truncate(n int64) error     { f.b = f.b[:n]; return nil }
func (f *c10MemFile) Stat() (os.FileInfo, error) { return c10Info{int64(len(f.b))}, nil }

type c10Info struct{ n int64 }

func (i c10Info) Name() string       { return "c10" }
func (i c10Info) Size() int64        { return i.n }
func (i c10Info) Mode() os.FileMode  { return 0600 }
func (i c10Info) ModTime() time.Time { return time.Time{} }
func (i c10Info) IsDir() bool        { return false }
func (i c10Info) Sys() interface{}   { return nil }

type c10Handle struct {
	st    *Store
	model map[string]map[string]string // collection -> key -> value
}

func c10Copy(m map[string]map[string]string) map[string]map[string]string {
	out := map[string]map[string]string{}
	for c, kv := range m {
		out[c] = map[string]string{}
		for k, v := range kv {
			out[c][k] = v
		}
	}
	return out
}

func c10Verify(h *c10Handle, who string) string {
	names := h.st.GetCollectionNames()
	var want []string
	for n := range h.model {
		want = append(want, n)
	}
	sort.Strings(want)
	if fmt.Sprint(names) != fmt.Sprint(want) {
		return fmt.Sprintf("%s: collections %v, model %v", who, names, want)
	}
	for _, n := range names {
		c := h.st.GetCollection(n)
		got := map[string]string{}
		steps := 0
		err := c.VisitItemsAscend([]byte(""), true, func(i *Item) bool {
			got[string(i.Key)] = string(i.Val)
			steps++
			return steps < 10000 // a cyclic tree must not hang the harness
		})
		if err != nil {
			return fmt.Sprintf("%s/%s: visit failed: %v", who, n, err)
		}
		if len(got) != len(h.model[n]) {
			return fmt.Sprintf("%s/%s: %d items, model has %d (%v vs %v)", who, n, len(got), len(h.model[n]), got, h.model[n])
		}
		for k, v := range h.model[n] {
			if got[k] != v {
				return fmt.Sprintf("%s/%s: key %s = %q, model %q", who, n, k, got[k], v)
			}
			if gv, err := c.Get([]byte(k)); err != nil || string(gv) != v {
				return fmt.Sprintf("%s/%s: Get(%s) = %q, %v; model %q", who, n, k, gv, err, v)
			}
		}
	}
	return ""
}

func c10Run(in c10Input) (what string) {
	defer func() {
		if r := recover(); r != nil {
			what = fmt.Sprintf("panic: %v", r)
		}
	}()
	var sf StoreFile
	if in.File {
		sf = &c10MemFile{}
	}
	s, err := NewStore(sf)
	if err != nil {
		return err.Error()
	}
	orig := &c10Handle{st: s, model: map[string]map[string]string{}}
	var snaps []*c10Handle
	other, _ := NewStore(nil) // shares the process-wide free lists
	oc := other.SetCollection("churn", nil)
	x := uint32(in.Seed*2654435761 + 99)
	rnd := func(n int) int { x = x*1664525 + 1013904223; return int((x >> 8) % uint32(n)) }
	colls := []string{"a", "b", "c"}
	for step := 1; step <= in.Steps; step++ {
		cn := colls[rnd(len(colls))]
		desc := ""
		switch op := rnd(20); {
		case op < 7: // set
			if orig.st.GetCollection(cn) == nil {
				orig.st.SetCollection(cn, nil)
				orig.model[cn] = map[string]string{}
			}
			k, v := fmt.Sprintf("k%02d", rnd(10)), fmt.Sprintf("v%d", step)
			if err := orig.st.GetCollection(cn).Set([]byte(k), []byte(v)); err != nil {
				return fmt.Sprintf("step %d Set: %v", step, err)
			}
			orig.model[cn][k] = v
			desc = "Set " + cn + "/" + k
		case op < 10: // delete
			if c := orig.st.GetCollection(cn); c != nil {
				k := fmt.Sprintf("k%02d", rnd(10))
				was, err := c.Delete([]byte(k))
				_, had := orig.model[cn][k]
				if err != nil || was != had {
					return fmt.Sprintf("step %d Delete(%s/%s) = %v, %v; present %v", step, cn, k, was, err, had)
				}
				delete(orig.model[cn], k)
				desc = "Delete " + cn + "/" + k
			}
		case op < 12: // snapshot of the original
			if len(snaps) < 4 {
				snaps = append(snaps, &c10Handle{st: orig.st.Snapshot(), model: c10Copy(orig.model)})
				desc = "Snapshot"
			}
		case op == 12: // snapshot of a snapshot
			if len(snaps) > 0 && len(snaps) < 4 {
				p := snaps[rnd(len(snaps))]
				snaps = append(snaps, &c10Handle{st: p.st.Snapshot(), model: c10Copy(p.model)})
				desc = "Snapshot of a snapshot"
			}
		case op < 15: // close a snapshot, any order
			if len(snaps) > 0 {
				i := rnd(len(snaps))
				snaps[i].st.Close()
				snaps = append(snaps[:i], snaps[i+1:]...)
				desc = "close a snapshot"
			}
		case op == 15: // replace an existing collection handle (keeps the items)
			if orig.st.GetCollection(cn) != nil {
				orig.st.SetCollection(cn, nil)
				desc = "SetCollection on existing " + cn
			}
		case op == 16: // remove (and maybe re-create empty)
			if orig.st.GetCollection(cn) != nil {
				orig.st.RemoveCollection(cn)
				delete(orig.model, cn)
				desc = "RemoveCollection " + cn
			}
		case op == 17:
			if in.File {
				if err := orig.st.Flush(); err != nil {
					return fmt.Sprintf("step %d Flush: %v", step, err)
				}
				desc = "Flush"
			}
		case op == 18:
			for _, n := range orig.st.GetCollectionNames() {
				orig.st.GetCollection(n).EvictSomeItems()
			}
			desc = "Evict"
		default: // churn elsewhere, to force reuse of whatever was freed
			for j := 0; j < 12; j++ {
				oc.Set([]byte(fmt.Sprintf("c%02d", rnd(30))), []byte("x"))
				oc.Delete([]byte(fmt.Sprintf("c%02d", rnd(30))))
			}
			desc = "churn in another store"
		}
		if w := c10Verify(orig, "original"); w != "" {
			return fmt.Sprintf("after step %d (%s): %s", step, desc, w)
		}
		for i, h := range snaps {
			if w := c10Verify(h, fmt.Sprintf("snapshot #%d", i)); w != "" {
				return fmt.Sprintf("after step %d (%s): %s", step, desc, w)
			}
		}
	}
	return ""
}

func TestBounded_C10_Histories(t *testing.T) {
	const test = "TestBounded_C10_Histories"
	var space []c10Input
	seeds, steps := 60, 60
	if os.Getenv("BOUNDED_TIER") == "thorough" {
		seeds, steps = 400, 90
	}
	for sd := 1; sd <= seeds; sd++ {
		space = append(space, c10Input{Seed: sd, Steps: steps, File: sd%2 == 0})
	}
	if r := os.Getenv("BOUNDED_REPLAY"); r != "" {
		var v struct {
			Test  string   `json:"test"`
			Input c10Input `json:"input"`
		}
		if json.Unmarshal([]byte(r), &v) != nil || v.Test != test {
			return
		}
		space = []c10Input{v.Input}
	}
	bad := 0
	for _, in := range space {
		if what := c10Run(in); what != "" {
			b, _ := json.Marshal(map[string]interface{}{"test": test, "input": in, "what": what})
			fmt.Printf("BOUNDED-VIOLATION %s\n", b)
			t.Errorf("%+v: %s", in, what)
			if bad++; bad >= 3 {
				break // a corrupted process-wide free list poisons the following histories
			}
		}
	}
	fmt.Printf("BOUNDED-CASES test=%s cases=%d space=%d pseudo-random histories of %d steps over 3 collections x 10 keys: Set, Delete, Snapshot, Snapshot of a snapshot (up to 4 open), closing snapshots in any order, SetCollection on an existing name, RemoveCollection, Flush (file-backed half), eviction, churn in a second store sharing the free lists; every open handle is re-read after every step\n", test, len(space), seeds, steps)
}
