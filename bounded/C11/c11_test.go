package gkvlite

// BOUNDED stand-in for C11 (DESIGN section 9): CopyTo's visitor closure does the copying (SetItem into
// the destination, periodic EvictSomeItems + Flush), so "all items arrive" is an invariant threaded through
// the visit recursion by a callback -- outside first-order per-function contracts. This harness runs the
// REAL CopyTo over an enumerated space of source states and flushEvery values and compares the copy, the
// re-opened copy and the untouched source with an independent map model. Bounded, not a proof.

import (
	"bytes"
	"encoding/json"
	"fmt"
	"os"
	"sort"
	"testing"
	"time"
)

type c11File struct {
	b      []byte
	writes int
}

func (f *c11File) ReadAt(p []byte, off int64) (int, error) {
	if off >= int64(len(f.b)) {
		return 0, fmt.Errorf("EOF")
	}
	n := copy(p, f.b[off:])
	if n < len(p) {
		return n, fmt.Errorf("EOF")
	}
	return n, nil
}
func (f *c11File) WriteAt(p []byte, off int64) (int, error) {
	f.writes++
	if need := int(off) + len(p); need > len(f.b) {
		f.b = append(f.b, make([]byte, need-len(f.b))...)
	}
	copy(f.b[off:], p)
	return len(p), nil
}
func (f *c11File) Truncate(size int64) error  { f.b = f.b[:size]; return nil }
func (f *c11File) Stat() (os.FileInfo, error) { return c11Info{int64(len(f.b))}, nil }

type c11Info struct{ size int64 }

func (i c11Info) Name() string       { return "mem" }
func (i c11Info) Size() int64        { return i.size }
func (i c11Info) Mode() os.FileMode  { return 0600 }
func (i c11Info) ModTime() time.Time { return time.Time{} }
func (i c11Info) IsDir() bool        { return false }
func (i c11Info) Sys() interface{}   { return nil }

// one enumerated case
type c11Input struct {
	Colls      int    `json:"colls"`      // number of collections (the last one stays empty when Colls > 1)
	Items      int    `json:"items"`      // distinct keys per non-empty collection
	Overwrites int    `json:"overwrites"` // keys set a second time (superseded versions in the source file)
	Deletes    int    `json:"deletes"`
	State      string `json:"state"` // dirty | flushed | evicted | snapshot | reopened | memonly
	Cmp        string `json:"cmp"`   // bytes | reverse
	FlushEvery int    `json:"flushEvery"`
	Recycle    bool   `json:"recycle,omitempty"` // the source store has behaviourally neutral reference-counting callbacks that recycle released items
}

// c11Pool: neutral ItemAlloc/ItemAddRef/ItemDecRef callbacks that overwrite an item's key and value bytes when its
// count returns to zero (what a pooling allocator that reuses the buffers does). C17: no result may change.
type c11Pool struct{ cnt map[*Item]int }

func (p *c11Pool) drop(i *Item) {
	p.cnt[i]--
	if p.cnt[i] == 0 {
		for k := range i.Key {
			i.Key[k] = 0xEE
		}
		for k := range i.Val {
			i.Val[k] = 0xEE
		}
	}
}
func (p *c11Pool) callbacks() StoreCallbacks {
	return StoreCallbacks{
		ItemAlloc:  func(c *Collection, n uint32) *Item { i := &Item{Key: make([]byte, n)}; p.cnt[i] = 1; return i },
		ItemAddRef: func(c *Collection, i *Item) { p.cnt[i]++ },
		ItemDecRef: func(c *Collection, i *Item) { p.drop(i) },
	}
}

func c11Reverse(a, b []byte) int { return bytes.Compare(b, a) }

type c11Model map[string]map[string]string // collection -> key -> "value|priority"

func c11Cmp(name string) KeyCompare {
	if name == "reverse" {
		return c11Reverse
	}
	return bytes.Compare
}

// build the source store of a case and its model
func c11Build(in c11Input) (*Store, *c11File, c11Model, error) {
	var f *c11File
	var sf StoreFile
	if in.State != "memonly" {
		f = &c11File{}
		sf = f
	}
	var cbs StoreCallbacks
	pool := &c11Pool{cnt: map[*Item]int{}}
	if in.Recycle {
		cbs = pool.callbacks()
	}
	s, err := NewStoreEx(sf, cbs)
	if err != nil {
		return nil, nil, nil, err
	}
	m := c11Model{}
	for c := 0; c < in.Colls; c++ {
		name := fmt.Sprintf("coll%d", c)
		col := s.SetCollection(name, c11Cmp(in.Cmp))
		m[name] = map[string]string{}
		if in.Colls > 1 && c == in.Colls-1 {
			continue // an empty collection
		}
		set := func(k int, gen int) error {
			key := fmt.Sprintf("k%03d", k)
			val := fmt.Sprintf("v%d.%d.%d", c, k, gen)
			if k%4 == 1 {
				val = "" // zero-length (non-nil) values are legal and must survive the copy, too
			}
			pri := int32((k*7919+gen*104729+c*13)%1000 + 1)
			m[name][key] = fmt.Sprintf("%s|%d", val, pri)
			it := &Item{Key: []byte(key), Val: append([]byte{}, val...), Priority: pri}
			if !in.Recycle {
				return col.SetItem(it)
			}
			pool.cnt[it] = 1 // the application's own reference, for the duration of the call
			err := col.SetItem(it)
			pool.drop(it)
			return err
		}
		for k := 0; k < in.Items; k++ {
			if err := set(k, 0); err != nil {
				return nil, nil, nil, err
			}
		}
		if in.State != "memonly" && in.Overwrites+in.Deletes > 0 {
			if err := s.Flush(); err != nil { // make the first versions durable so that they are superseded on file
				return nil, nil, nil, err
			}
		}
		for k := 0; k < in.Overwrites && k < in.Items; k++ {
			if err := set(k, 1); err != nil {
				return nil, nil, nil, err
			}
		}
		for k := 0; k < in.Deletes && k < in.Items; k++ {
			key := fmt.Sprintf("k%03d", in.Items-1-k)
			if _, err := col.Delete([]byte(key)); err != nil {
				return nil, nil, nil, err
			}
			delete(m[name], key)
		}
	}
	switch in.State {
	case "dirty", "memonly":
	case "flushed":
		err = s.Flush()
	case "evicted":
		if err = s.Flush(); err == nil {
			for _, n := range s.GetCollectionNames() {
				for k := 0; k < 50; k++ {
					s.GetCollection(n).EvictSomeItems()
				}
			}
		}
	case "snapshot":
		if err = s.Flush(); err == nil {
			snap := s.Snapshot()
			// the original moves on after the snapshot was taken; the snapshot must still copy the old state
			for _, n := range s.GetCollectionNames() {
				s.GetCollection(n).Set([]byte("zzz-after-snapshot"), []byte("x"))
			}
			return snap, f, m, nil
		}
	case "reopened":
		if err = s.Flush(); err == nil {
			s.Close()
			s, err = NewStoreEx(f, cbs)
			if err == nil && in.Cmp == "reverse" {
				for _, n := range s.GetCollectionNames() {
					s.SetCollection(n, c11Reverse) // comparators are not persisted; re-install as the docs require
				}
			}
		}
	default:
		err = fmt.Errorf("unknown state %q", in.State)
	}
	return s, f, m, err
}

func c11Contents(s *Store) (c11Model, error) {
	out := c11Model{}
	for _, n := range s.GetCollectionNames() {
		c := s.GetCollection(n)
		out[n] = map[string]string{}
		mi, err := c.MinItem(true)
		if err != nil {
			return nil, err
		}
		if mi == nil {
			continue
		}
		var keys []string
		err = c.VisitItemsAscend(mi.Key, true, func(i *Item) bool {
			out[n][string(i.Key)] = fmt.Sprintf("%s|%d", string(i.Val), i.Priority)
			keys = append(keys, string(i.Key))
			return true
		})
		if err != nil {
			return nil, err
		}
		for k, v := range out[n] { // cross-check with point lookups
			it, err := c.GetItem([]byte(k), true)
			if err != nil || it == nil || fmt.Sprintf("%s|%d", string(it.Val), it.Priority) != v {
				return nil, fmt.Errorf("GetItem(%s) disagrees with the visit", k)
			}
		}
	}
	return out, nil
}

func c11Diff(want, got c11Model) string {
	var names []string
	for n := range want {
		names = append(names, n)
	}
	sort.Strings(names)
	if len(want) != len(got) {
		return fmt.Sprintf("collections: want %d, got %d", len(want), len(got))
	}
	for _, n := range names {
		g, ok := got[n]
		if !ok {
			return "collection " + n + " is missing"
		}
		if len(g) != len(want[n]) {
			return fmt.Sprintf("collection %s: want %d items, got %d", n, len(want[n]), len(g))
		}
		for k, v := range want[n] {
			if g[k] != v {
				return fmt.Sprintf("collection %s key %s: want %q, got %q", n, k, v, g[k])
			}
		}
	}
	return ""
}

func c11Run(in c11Input) (what string) {
	defer func() {
		if r := recover(); r != nil {
			what = fmt.Sprintf("panic: %v", r)
		}
	}()
	src, srcFile, model, err := c11Build(in)
	if err != nil {
		return "building the source failed: " + err.Error()
	}
	var srcBytes []byte
	srcWrites := 0
	if srcFile != nil {
		srcBytes = append([]byte(nil), srcFile.b...)
		srcWrites = srcFile.writes
	}
	dstFile := &c11File{}
	dst, err := src.CopyTo(dstFile, in.FlushEvery)
	if err != nil {
		return "CopyTo returned an error: " + err.Error()
	}
	for _, n := range dst.GetCollectionNames() { // comparators travel with the copy
		_ = n
	}
	got, err := c11Contents(dst)
	if err != nil {
		return "reading the copy failed: " + err.Error()
	}
	if d := c11Diff(model, got); d != "" {
		return "the copy differs from the source: " + d
	}
	// the source and its file are untouched
	if srcFile != nil && (srcFile.writes != srcWrites || !bytes.Equal(srcFile.b, srcBytes)) {
		return "CopyTo wrote to the source file"
	}
	after, err := c11Contents(src)
	if err != nil {
		return "reading the source after the copy failed: " + err.Error()
	}
	if d := c11Diff(model, after); d != "" {
		return "the source changed: " + d
	}
	if in.FlushEvery > 0 {
		// durable: the destination file re-opens to the same state
		re, err := NewStore(&c11File{b: append([]byte(nil), dstFile.b...)})
		if err != nil {
			return "re-opening the copy failed: " + err.Error()
		}
		if in.Cmp == "reverse" {
			for _, n := range re.GetCollectionNames() {
				re.SetCollection(n, c11Reverse)
			}
		}
		got, err := c11Contents(re)
		if err != nil {
			return "reading the re-opened copy failed: " + err.Error()
		}
		if d := c11Diff(model, got); d != "" {
			return "the re-opened copy differs from the source: " + d
		}
		// compact: no superseded item versions -- every item record in the file is live, i.e. the item bytes
		// in the file are exactly the live items' records
		live := 0
		for _, kv := range model {
			for k, v := range kv {
				val := v[:bytes.IndexByte([]byte(v), '|')]
				live += 16 + len(k) + len(val)
			}
		}
		if items := c11ItemBytes(re); items != live {
			return fmt.Sprintf("the copy is not compact: %d bytes of item records reachable, %d bytes of live items", items, live)
		}
		if in.Overwrites > 0 && srcFile != nil && in.FlushEvery > 1000 && len(dstFile.b) >= len(srcBytes) && in.State != "dirty" {
			return fmt.Sprintf("the copy (%d bytes) is not smaller than a source holding superseded versions (%d bytes)", len(dstFile.b), len(srcBytes))
		}
	}
	return ""
}

// total length of the item records reachable from the roots of a (re-opened) store
func c11ItemBytes(s *Store) int {
	total := 0
	var walk func(c *Collection, n *nodeLoc)
	walk = func(c *Collection, n *nodeLoc) {
		nn, err := n.read(s)
		if err != nil || n.isEmpty() || nn == nil {
			return
		}
		if l := nn.item.Loc(); !l.isEmpty() {
			total += int(l.Length)
		}
		walk(c, &nn.left)
		walk(c, &nn.right)
	}
	for _, n := range s.GetCollectionNames() {
		c := s.GetCollection(n)
		rnl := c.rootAddRef()
		walk(c, rnl.root)
		c.rootDecRef(rnl)
	}
	return total
}

func c11Space() []c11Input {
	var out []c11Input
	thorough := os.Getenv("BOUNDED_TIER") == "thorough"
	itemsSet := []int{0, 1, 2, 3, 5, 8}
	if thorough {
		itemsSet = []int{0, 1, 2, 3, 4, 5, 6, 7, 8, 13, 21}
	}
	for _, colls := range []int{0, 1, 2, 3} {
		for _, items := range itemsSet {
			if colls == 0 && items > 0 {
				continue
			}
			for _, state := range []string{"dirty", "flushed", "evicted", "snapshot", "reopened", "memonly"} {
				for _, cmp := range []string{"bytes", "reverse"} {
					for _, ow := range []int{0, 2} {
						for _, del := range []int{0, 1} {
							if (ow > 0 || del > 0) && items < 3 {
								continue
							}
							fes := []int{-1, 0, 1, 2, 3, items, items + 1, 100000}
							if !thorough {
								fes = []int{0, 1, 2, items, items + 1, 100000}
							}
							seen := map[int]bool{}
							for _, fe := range fes {
								if seen[fe] {
									continue
								}
								seen[fe] = true
								out = append(out, c11Input{Colls: colls, Items: items, Overwrites: ow, Deletes: del, State: state, Cmp: cmp, FlushEvery: fe})
							}
						}
					}
				}
			}
		}
	}
	// the same under recycling reference-counting callbacks on the source (C17), for a sample of the space
	n := len(out)
	for k := 0; k < n; k += 5 {
		in := out[k]
		if in.State == "memonly" || in.State == "snapshot" || in.Items == 0 {
			continue
		}
		in.Recycle = true
		out = append(out, in)
	}
	return out
}

func TestBounded_C11_CopyTo(t *testing.T) {
	const test = "TestBounded_C11_CopyTo"
	space := c11Space()
	if r := os.Getenv("BOUNDED_REPLAY"); r != "" {
		var v struct {
			Test  string   `json:"test"`
			Input c11Input `json:"input"`
		}
		if json.Unmarshal([]byte(r), &v) != nil || v.Test != test {
			return
		}
		space = []c11Input{v.Input}
	}
	for _, in := range space {
		if what := c11Run(in); what != "" {
			b, _ := json.Marshal(map[string]interface{}{"test": test, "input": in, "what": what})
			fmt.Printf("BOUNDED-VIOLATION %s\n", b)
			t.Errorf("%+v: %s", in, what)
		}
	}
	fmt.Printf("BOUNDED-CASES test=%s cases=%d space=collections 0..3 (last one empty) x items per collection x source state {dirty,flushed,evicted,snapshot,reopened,memonly} x comparator {bytes,reverse} x overwrites {0,2} x deletes {0,1} x flushEvery {<=0,1,2,3,n,n+1,huge}\n", test, len(space))
}
