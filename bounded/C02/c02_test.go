package gkvlite

// BOUNDED stand-in / cross-check for C02 (DESIGN 10.3): the contracts of the functions behind C02 are proved per
// call, with the slot-denotation postulates and the library contracts as assumptions. This harness evaluates
// the same statements END TO END on the real code against independent oracles, over a fixed finite space --
// a check of those assumptions, labelled bounded and never counted as proved.

import (
	"fmt"
	"testing"
)

func TestBounded_C02_EndToEnd(t *testing.T) {
	const test = "TestBounded_C02_EndToEnd"
	ok := t.Run("oracle", func(t *testing.T) { rpMap(t); rpFlush(t); rpScan(t) })
	if !ok {
		fmt.Printf("BOUNDED-VIOLATION {\"test\":%q,\"input\":{},\"what\":\"the end-to-end oracle failed; the failing step is in the harness output\"}\n", test)
	}
	fmt.Printf("BOUNDED-CASES test=%s cases=%d space=%s\n", test, rpCases, "the histories of the C01 harness (which re-open the file after a Flush and compare with the model), plus: every Flush appends a complete root record beyond the old size, plus: files with junk tails, truncations, the smallest root record and records ending just past 512/4096-byte boundaries open at the greatest complete root record (independent validator)")
}
