package gkvlite

// BOUNDED stand-in / cross-check for C09 (DESIGN 10.3): the contracts of the functions behind C09 are proved per
// call, with the slot-denotation postulates and the library contracts as assumptions. This harness evaluates
// the same statements END TO END on the real code against independent oracles, over a fixed finite space --
// a check of those assumptions, labelled bounded and never counted as proved.

import (
	"fmt"
	"testing"
)

func TestBounded_C09_EndToEnd(t *testing.T) {
	const test = "TestBounded_C09_EndToEnd"
	ok := t.Run("oracle", func(t *testing.T) { rpFlush(t); rpScan(t) })
	if !ok {
		fmt.Printf("BOUNDED-VIOLATION {\"test\":%q,\"input\":{},\"what\":\"the end-to-end oracle failed; the failing step is in the harness output\"}\n", test)
	}
	fmt.Printf("BOUNDED-CASES test=%s cases=%d space=%s\n", test, rpCases, "every Flush leaves all bytes below the old end of file unchanged and appends a complete root record; opening any of the corpus files writes nothing")
}
