package gkvlite

// BOUNDED stand-in for C05 (DESIGN 10.3): "every read-only call returns the contents of one single
// version" is a statement over all schedules; the contracts decide only the sequential lock and pin
// discipline. This harness runs the REAL code with one mutating goroutine (Set/Delete/Flush/Evict,
// as the documentation prescribes: a single mutator) against several reader goroutines, and checks
// that every whole visit, every lookup and every Min/Max a reader performs equals the collection's
// state after SOME mutation step that lay between the reader's start and end. The Go scheduler's
// interleavings are NOT enumerated (the run is repeated): bounded, not a proof.

import (
	"encoding/json"
	"fmt"
	"os"
	"sync"
	"sync/atomic"
	"testing"
	"time"
)

type c05Input struct {
	Seed    int  `json:"seed"`
	Steps   int  `json:"steps"`
	Readers int  `json:"readers"`
	File    bool `json:"file"`
}

type c05MemFile struct {
	mu sync.Mutex
	b  []byte
}

func (f *c05MemFile) ReadAt(p []byte, off int64) (int, error) {
	f.mu.Lock()
	defer f.mu.Unlock()
	if off >= int64(len(f.b)) {
		return 0, fmt.Errorf("EOF")
	}
	n := copy(p, f.b[off:])
	if n < len(p) {
		return n, fmt.Errorf("EOF")
	}
	return n, nil
}
func (f *c05MemFile) WriteAt(p []byte, off int64) (int, error) {
	f.mu.Lock()
	defer f.mu.Unlock()
	if need := int(off) + len(p); need > len(f.b) {
		f.b = append(f.b, make([]byte, need-len(f.b))...)
	}
	copy(f.b[off:], p)
	return len(p), nil
}
func (f *c05MemFile) Truncate(n int64) error {
	f.mu.Lock()
	defer f.mu.Unlock()
	f.b = f.b[:n]
	return nil
}
func (f *c05MemFile) Stat() (os.FileInfo, error) {
	f.mu.Lock()
	defer f.mu.Unlock()
	return c05Info{int64(len(f.b))}, nil
}

type c05Info struct{ n int64 }

func (i c05Info) Name() string       { return "c05" }
func (i c05Info) Size() int64        { return i.n }
func (i c05Info) Mode() os.FileMode  { return 0600 }
func (i c05Info) ModTime() time.Time { return time.Time{} }
func (i c05Info) IsDir() bool        { return false }
func (i c05Info) Sys() interface{}   { return nil }

// the state after step j: deterministic from (seed, j)
func c05States(seed, steps int) []map[string]string {
	states := []map[string]string{{}}
	cur := map[string]string{}
	x := uint32(seed*2654435761 + 12345)
	for j := 1; j <= steps; j++ {
		x = x*1664525 + 1013904223
		k := fmt.Sprintf("k%02d", (x>>8)%12)
		if (x>>20)%4 == 0 {
			delete(cur, k)
		} else {
			cur[k] = fmt.Sprintf("v%d", j)
		}
		cp := map[string]string{}
		for a, b := range cur {
			cp[a] = b
		}
		states = append(states, cp)
	}
	return states
}

func c05Equal(got map[string]string, st map[string]string) bool {
	if len(got) != len(st) {
		return false
	}
	for k, v := range st {
		if got[k] != v {
			return false
		}
	}
	return true
}

func c05Run(in c05Input) (what string) {
	var sf StoreFile
	if in.File {
		sf = &c05MemFile{}
	}
	s, err := NewStore(sf)
	if err != nil {
		return err.Error()
	}
	c := s.SetCollection("x", nil)
	states := c05States(in.Seed, in.Steps)
	var step int64 // number of mutation steps completed; step+1 may be in progress
	var stop int32
	var mu sync.Mutex
	fail := func(f string, a ...interface{}) {
		mu.Lock()
		if what == "" {
			what = fmt.Sprintf(f, a...)
		}
		mu.Unlock()
		atomic.StoreInt32(&stop, 1)
	}
	var wg sync.WaitGroup
	for r := 0; r < in.Readers; r++ {
		wg.Add(1)
		go func(r int) {
			defer wg.Done()
			defer func() {
				if p := recover(); p != nil {
					fail("reader %d panicked: %v", r, p)
				}
			}()
			for n := 0; atomic.LoadInt32(&stop) == 0; n++ {
				lo := atomic.LoadInt64(&step)
				got := map[string]string{}
				var prev string
				err := c.VisitItemsAscend([]byte(""), true, func(i *Item) bool {
					if prev != "" && string(i.Key) <= prev {
						fail("reader %d: visit out of order: %q after %q", r, i.Key, prev)
					}
					prev = string(i.Key)
					got[string(i.Key)] = string(i.Val)
					return true
				})
				hi := atomic.LoadInt64(&step) + 1
				if err != nil {
					fail("reader %d: visit failed: %v", r, err)
					return
				}
				if hi > int64(in.Steps) {
					hi = int64(in.Steps)
				}
				ok := false
				for j := lo; j <= hi; j++ {
					if c05Equal(got, states[j]) {
						ok = true
						break
					}
				}
				if !ok {
					fail("reader %d: a whole visit returned %v, which is the state after none of the steps %d..%d (a mixture of versions)", r, got, lo, hi)
					return
				}
				// a point lookup agrees with one of the states in its window, too
				k := fmt.Sprintf("k%02d", n%12)
				lo = atomic.LoadInt64(&step)
				v, err := c.Get([]byte(k))
				hi = atomic.LoadInt64(&step) + 1
				if hi > int64(in.Steps) {
					hi = int64(in.Steps)
				}
				if err != nil {
					fail("reader %d: Get failed: %v", r, err)
					return
				}
				ok = false
				for j := lo; j <= hi; j++ {
					if sv, has := states[j][k]; (has && v != nil && string(v) == sv) || (!has && v == nil) {
						ok = true
						break
					}
				}
				if !ok {
					fail("reader %d: Get(%s) = %q matches no state of steps %d..%d", r, k, v, lo, hi)
					return
				}
			}
		}(r)
	}
	// the single mutator
	func() {
		defer func() {
			if p := recover(); p != nil {
				fail("the mutator panicked: %v", p)
			}
		}()
		x := uint32(in.Seed*2654435761 + 12345)
		for j := 1; j <= in.Steps && atomic.LoadInt32(&stop) == 0; j++ {
			x = x*1664525 + 1013904223
			k := fmt.Sprintf("k%02d", (x>>8)%12)
			var err error
			if (x>>20)%4 == 0 {
				_, err = c.Delete([]byte(k))
			} else {
				err = c.Set([]byte(k), []byte(fmt.Sprintf("v%d", j)))
			}
			if err != nil {
				fail("mutation step %d failed: %v", j, err)
				break
			}
			atomic.StoreInt64(&step, int64(j))
			if in.File && j%7 == 0 {
				if err := s.Flush(); err != nil {
					fail("Flush failed: %v", err)
					break
				}
				c.EvictSomeItems()
			}
		}
	}()
	time.Sleep(2 * time.Millisecond)
	atomic.StoreInt32(&stop, 1)
	done := make(chan struct{})
	go func() { wg.Wait(); close(done) }()
	select {
	case <-done:
	case <-time.After(10 * time.Second):
		return "readers did not finish within 10 s (deadlock)"
	}
	return what
}

func TestBounded_C05_Readers(t *testing.T) {
	const test = "TestBounded_C05_Readers"
	var space []c05Input
	seeds, steps := 12, 150
	if os.Getenv("BOUNDED_TIER") == "thorough" {
		seeds, steps = 60, 400
	}
	for sd := 1; sd <= seeds; sd++ {
		for _, file := range []bool{false, true} {
			space = append(space, c05Input{Seed: sd, Steps: steps, Readers: 3, File: file})
		}
	}
	if r := os.Getenv("BOUNDED_REPLAY"); r != "" {
		var v struct {
			Test  string   `json:"test"`
			Input c05Input `json:"input"`
		}
		if json.Unmarshal([]byte(r), &v) != nil || v.Test != test {
			return
		}
		space = nil
		for k := 0; k < 10; k++ { // a schedule-dependent failure may need several attempts to show again
			space = append(space, v.Input)
		}
	}
	bad := 0
	for _, in := range space {
		if what := c05Run(in); what != "" {
			b, _ := json.Marshal(map[string]interface{}{"test": test, "input": in, "what": what})
			fmt.Printf("BOUNDED-VIOLATION %s\n", b)
			t.Errorf("%+v: %s", in, what)
			if bad++; bad >= 3 {
				break
			}
		}
	}
	fmt.Printf("BOUNDED-CASES test=%s cases=%d space=%d pseudo-random single-mutator histories of %d Set/Delete steps over 12 keys (memory-only, and file-backed with a Flush + EvictSomeItems every 7 steps) x 3 concurrent readers doing whole ascending visits and point lookups; scheduler interleavings are not enumerated\n", test, len(space), seeds, steps)
}

// Forced schedules (no reliance on the scheduler): a reader's whole-collection enumeration is parked, through the
// ItemDecRef callback, at the point where it has finished counting the items and has not yet looked up the first
// one; the single mutating goroutine then empties (or changes) the collection; the reader is resumed. C05: no
// schedule produces a panic, and what the reader is presented are items of versions that were current during the call.
type c05HandOver struct {
	Op    string `json:"op"`    // BlockEx | Random
	N     int    `json:"n"`     // items before the hand-over
	After string `json:"after"` // what the mutator does while the reader is parked: empty | shrink | grow
}

func c05HandOverRun(in c05HandOver) (what string) {
	var armed int32 = 0
	parked, resume := make(chan bool), make(chan bool)
	cb := StoreCallbacks{
		ItemDecRef: func(c *Collection, i *Item) {
			if atomic.CompareAndSwapInt32(&armed, 1, 2) {
				close(parked)
				<-resume
			}
		},
		ItemAddRef: func(c *Collection, i *Item) {},
	}
	s, err := NewStoreEx(nil, cb)
	if err != nil {
		return err.Error()
	}
	c := s.SetCollection("x", nil)
	valid := map[string]bool{}
	for k := 0; k < in.N; k++ {
		key := fmt.Sprintf("k%03d", k)
		c.Set([]byte(key), []byte("v"))
		valid[key] = true
	}
	done := make(chan string, 1)
	seen := map[string]int{}
	atomic.StoreInt32(&armed, 1)
	go func() {
		defer func() {
			if r := recover(); r != nil {
				done <- fmt.Sprintf("panic in the reader: %v", r)
			}
		}()
		v := func(i *Item, d uint64) bool { seen[string(i.Key)]++; return true }
		var e error
		if in.Op == "Random" {
			e = c.VisitItemsRandom(v)
		} else {
			e = c.VisitItemsAscendBlockEx(false, nil, v)
		}
		_ = e // an error return is acceptable (the collection changed under the enumeration); a panic is not
		done <- ""
	}()
	select {
	case <-parked:
		// the single mutator
		switch in.After {
		case "empty":
			for k := 0; k < in.N; k++ {
				c.Delete([]byte(fmt.Sprintf("k%03d", k)))
			}
		case "shrink":
			for k := 0; k < in.N-1; k++ {
				c.Delete([]byte(fmt.Sprintf("k%03d", k)))
			}
		case "grow":
			for k := in.N; k < 2*in.N+2; k++ {
				key := fmt.Sprintf("k%03d", k)
				c.Set([]byte(key), []byte("v"))
				valid[key] = true
			}
		}
		close(resume)
	case w := <-done: // never parked (nothing to count)
		return w
	case <-time.After(10 * time.Second):
		return "the reader neither reached the hand-over point nor returned within 10 s"
	}
	select {
	case w := <-done:
		if w != "" {
			return w
		}
	case <-time.After(10 * time.Second):
		return "the reader did not return within 10 s after the mutator finished"
	}
	for k, n := range seen {
		if !valid[k] {
			return "the reader was presented " + k + ", which never was a key of the collection"
		}
		if n > 1 && in.After != "grow" {
			return fmt.Sprintf("the reader was presented %s %d times", k, n)
		}
	}
	return ""
}

func TestBounded_C05_HandOver(t *testing.T) {
	const test = "TestBounded_C05_HandOver"
	var space []c05HandOver
	for _, op := range []string{"BlockEx", "Random"} {
		for _, n := range []int{1, 2, 3, 5} {
			for _, after := range []string{"empty", "shrink", "grow"} {
				space = append(space, c05HandOver{Op: op, N: n, After: after})
			}
		}
	}
	if r := os.Getenv("BOUNDED_REPLAY"); r != "" {
		var v struct {
			Test  string      `json:"test"`
			Input c05HandOver `json:"input"`
		}
		if json.Unmarshal([]byte(r), &v) != nil || v.Test != test {
			return
		}
		space = []c05HandOver{v.Input}
	}
	for _, in := range space {
		if what := c05HandOverRun(in); what != "" {
			b, _ := json.Marshal(map[string]interface{}{"test": test, "input": in, "what": what})
			fmt.Printf("BOUNDED-VIOLATION %s\n", b)
			t.Errorf("%+v: %s", in, what)
		}
	}
	fmt.Printf("BOUNDED-CASES test=%s cases=%d space=forced schedules: {VisitItemsAscendBlockEx, VisitItemsRandom} x {1,2,3,5} items x the single mutator {empties, shrinks to one item, grows} the collection while the reader is parked between counting the items and looking up the first one\n", test, len(space))
}
