package gkvlite

// BOUNDED stand-in for the part of C15 that lives in functions outside the contracts (the block
// visits, CopyTo, whole-history balance "once everything is closed, every reference has been
// released"). The harness keeps a ledger of every item seen by the ItemAlloc/ItemAddRef/ItemDecRef
// callbacks and runs the REAL code: build a persisted collection, re-open it (so that items are
// loaded through ItemAlloc), run ONE probe operation, close everything, and require that no count
// ever went negative, that every item handed to a visitor or returned had a positive count, and that
// all counts are zero at the end. Bounded, not a proof. (Get is not probed: its leak is the recorded
// finding D12c, reported by the obligation Get#post.reference-is-released-or-handed-on.)

import (
	"encoding/json"
	"fmt"
	"io"
	"os"
	"sort"
	"testing"
	"time"
)

type c15Input struct {
	Op    string `json:"op"`
	N     int    `json:"n"`
	Dirty bool   `json:"dirty"` // run the probe on the freshly built (unflushed, unreopened) store instead
}

// an in-memory StoreFile (nothing is left behind in the file system)
type c15MemFile struct{ b []byte }

func (f *c15MemFile) ReadAt(p []byte, off int64) (int, error) {
	if off < 0 || off >= int64(len(f.b)) {
		return 0, fmt.Errorf("EOF")
	}
	n := copy(p, f.b[off:])
	if n < len(p) {
		return n, fmt.Errorf("EOF")
	}
	return n, nil
}
func (f *c15MemFile) WriteAt(p []byte, off int64) (int, error) {
	if need := int(off) + len(p); need > len(f.b) {
		f.b = append(f.b, make([]byte, need-len(f.b))...)
	}
	copy(f.b[off:], p)
	return len(p), nil
}
func (f *c15MemFile) Truncate(n int64) error     { f.b = f.b[:n]; return nil }
func (f *c15MemFile) Stat() (os.FileInfo, error) { return c15Info{int64(len(f.b))}, nil }

type c15Info struct{ n int64 }

func (i c15Info) Name() string       { return "c15" }
func (i c15Info) Size() int64        { return i.n }
func (i c15Info) Mode() os.FileMode  { return 0600 }
func (i c15Info) ModTime() time.Time { return time.Time{} }
func (i c15Info) IsDir() bool        { return false }
func (i c15Info) Sys() interface{}   { return nil }

type c15Ledger struct {
	cnt map[*Item]int
	bad []string
	// hook run at the start of the (neutral) ItemValRead callback: lets a probe evict, or park a reader, at the
	// point between an item read's look at the slot and its publication of the loaded item
	onValRead func()
}

func (l *c15Ledger) callbacks() StoreCallbacks {
	return StoreCallbacks{
		ItemAlloc: func(c *Collection, n uint32) *Item {
			i := &Item{Key: make([]byte, n)}
			l.cnt[i] = 1
			return i
		},
		ItemAddRef: func(c *Collection, i *Item) {
			if i != nil {
				l.cnt[i]++
			}
		},
		ItemDecRef: func(c *Collection, i *Item) {
			if i == nil {
				return
			}
			l.cnt[i]--
			if l.cnt[i] < 0 {
				l.bad = append(l.bad, fmt.Sprintf("count of item %q dropped below zero", string(i.Key)))
			}
		},
		// behaviourally neutral: reads exactly the bytes the default reader would
		ItemValRead: func(c *Collection, i *Item, r io.ReaderAt, offset int64, valLength uint32) error {
			if h := l.onValRead; h != nil {
				h()
			}
			i.Val = make([]byte, valLength)
			_, err := r.ReadAt(i.Val, offset)
			return err
		},
	}
}

func (l *c15Ledger) handed(i *Item, where string) {
	if i != nil && l.cnt[i] <= 0 {
		l.bad = append(l.bad, fmt.Sprintf("%s handed out item %q with count %d", where, string(i.Key), l.cnt[i]))
	}
}

func (l *c15Ledger) outstanding() string {
	var left []string
	for i, c := range l.cnt {
		if c != 0 {
			left = append(left, fmt.Sprintf("%s:%d", string(i.Key), c))
		}
	}
	sort.Strings(left)
	if len(left) > 6 {
		left = append(left[:6], "...")
	}
	return fmt.Sprint(left)
}

var c15Ops = []string{"none", "Exist", "ExistMissing", "Len", "MinItem", "MaxItem", "GetItem", "GetItemKeyOnly", "GetItemMissing",
	"VisitAscend", "VisitAscendStop", "VisitDescend", "BlockEx", "Random", "Evict", "Overwrite", "Insert", "Delete", "DeleteMissing",
	"SnapshotRead", "IterateAll", "IterateAbandon", "CopyTo", "EvictDuringValueRead", "RacingValueReads"}

func c15Run(in c15Input) (what string) {
	defer func() {
		if r := recover(); r != nil {
			what = fmt.Sprintf("panic: %v", r)
		}
	}()
	f := &c15MemFile{}
	l := &c15Ledger{cnt: map[*Item]int{}}
	s, err := NewStoreEx(f, l.callbacks())
	if err != nil {
		return err.Error()
	}
	c := s.SetCollection("x", nil)
	for k := 0; k < in.N; k++ {
		it := &Item{Key: []byte(fmt.Sprintf("k%03d", k)), Val: []byte(fmt.Sprintf("v%d", k)), Priority: int32(k*37%11 + 1)}
		l.cnt[it] = 1 // the application's own reference
		if err := c.SetItem(it); err != nil {
			return "SetItem: " + err.Error()
		}
		l.cnt[it]-- // the application lets go; gkvlite holds what it needs
	}
	if !in.Dirty {
		if err := s.Flush(); err != nil {
			return "Flush: " + err.Error()
		}
		s.Close()
		if o := l.outstanding(); o != "[]" {
			return "after building, flushing and closing the store references are still held: " + o
		}
		s, err = NewStoreEx(f, l.callbacks())
		if err != nil {
			return "re-open: " + err.Error()
		}
		c = s.GetCollection("x")
	}
	var extra []*Store
	mid := []byte(fmt.Sprintf("k%03d", in.N/2))
	release := func(i *Item, where string) {
		if i != nil {
			l.handed(i, where)
			s.ItemDecRef(c, i)
		}
	}
	switch in.Op {
	case "none":
	case "Exist":
		c.Exist(mid)
	case "ExistMissing":
		c.Exist([]byte("zzz"))
	case "Len":
		if n, err := c.Len(); err != nil || n != int64(in.N) {
			return fmt.Sprintf("Len = %d, %v", n, err)
		}
	case "MinItem":
		i, _ := c.MinItem(true)
		release(i, "MinItem")
	case "MaxItem":
		i, _ := c.MaxItem(false)
		release(i, "MaxItem")
	case "GetItem":
		i, _ := c.GetItem(mid, true)
		release(i, "GetItem")
	case "GetItemKeyOnly":
		i, _ := c.GetItem(mid, false)
		release(i, "GetItem")
		i, _ = c.GetItem(mid, true) // replaces the cached key-only item
		release(i, "GetItem")
	case "GetItemMissing":
		i, _ := c.GetItem([]byte("zzz"), true)
		release(i, "GetItem")
	case "VisitAscend", "VisitAscendStop", "VisitDescend":
		seen := 0
		v := func(i *Item) bool {
			l.handed(i, in.Op)
			seen++
			return in.Op != "VisitAscendStop" || seen < 2
		}
		if in.Op == "VisitDescend" {
			err = c.VisitItemsDescend([]byte("zzz"), true, v)
		} else {
			err = c.VisitItemsAscend([]byte(""), true, v)
		}
		if err != nil {
			return in.Op + ": " + err.Error()
		}
	case "BlockEx":
		c.VisitItemsAscendBlockEx(true, nil, func(i *Item, d uint64) bool { l.handed(i, "VisitItemsAscendBlockEx"); return true })
	case "Random":
		c.VisitItemsRandom(func(i *Item, d uint64) bool { l.handed(i, "VisitItemsRandom"); return true })
	case "Evict":
		c.GetItem(mid, true) // cache something first (reference deliberately released below)
		if i, _ := c.GetItem(mid, true); i != nil {
			s.ItemDecRef(c, i)
			s.ItemDecRef(c, i)
		}
		for k := 0; k < 20; k++ {
			c.EvictSomeItems()
		}
	case "Overwrite", "Insert":
		key := mid
		if in.Op == "Insert" {
			key = []byte("new")
		}
		it := &Item{Key: key, Val: []byte("other"), Priority: 5}
		l.cnt[it] = 1
		if err := c.SetItem(it); err != nil {
			return err.Error()
		}
		l.cnt[it]--
	case "Delete":
		c.Delete(mid)
	case "DeleteMissing":
		c.Delete([]byte("zzz"))
	case "SnapshotRead":
		snap := s.Snapshot()
		extra = append(extra, snap)
		sc := snap.GetCollection("x")
		i, _ := sc.GetItem(mid, true)
		if i != nil {
			l.handed(i, "snapshot GetItem")
			snap.ItemDecRef(sc, i)
		}
		c.Set([]byte("after"), []byte("x")) // the original moves on while the snapshot is open
	case "IterateAll", "IterateAbandon":
		c.rootLock.Lock()
		base := c.root.refs
		c.rootLock.Unlock()
		it := c.IterateAscend([]byte(""), true)
		k := 0
		for it.Next() {
			l.handed(it.Result(), "iterator")
			k++
			if in.Op == "IterateAbandon" && k == 1 {
				break
			}
		}
		it.Close()
		// the producer goroutine finishes asynchronously: wait until it has released its pin
		for w := 0; w < 2000; w++ {
			c.rootLock.Lock()
			r := c.root.refs
			c.rootLock.Unlock()
			if r == base {
				break
			}
			time.Sleep(time.Millisecond)
		}
	case "EvictDuringValueRead":
		// the application's value reader does cache management: it evicts while a with-value read of an item
		// that is cached key-only is under way, so that read loses the publication of what it loaded
		i, _ := c.GetItem(mid, false)
		release(i, "GetItem")
		l.onValRead = func() { l.onValRead = nil; c.EvictSomeItems() }
		i, _ = c.GetItem(mid, true)
		l.onValRead = nil
		release(i, "GetItem")
	case "RacingValueReads":
		// two readers upgrade the same key-only cached item; reader A is parked inside its value read until
		// reader B has finished (a forced schedule, not a race: the goroutines hand over through channels)
		i, _ := c.GetItem(mid, false)
		release(i, "GetItem")
		parked, resume, done := make(chan bool), make(chan bool), make(chan *Item)
		first := true
		l.onValRead = func() {
			if first {
				first = false
				close(parked)
				<-resume
			}
		}
		go func() {
			a, _ := c.GetItem(mid, true)
			done <- a
		}()
		select {
		case <-parked:
			b, _ := c.GetItem(mid, true)
			release(b, "GetItem (reader B)")
			close(resume)
			release(<-done, "GetItem (reader A)")
		case a := <-done: // nothing to load (freshly built store, or no such key): A never reached a value read
			release(a, "GetItem (reader A)")
		case <-time.After(5 * time.Second):
			return "reader A neither reached its value read nor returned within 5 s"
		}
		l.onValRead = nil
	case "CopyTo":
		dst, err := s.CopyTo(&c15MemFile{}, 2)
		if err != nil {
			return "CopyTo: " + err.Error()
		}
		extra = append(extra, dst)
	default:
		return "unknown op " + in.Op
	}
	for _, e := range extra {
		e.Close()
	}
	s.Close()
	if len(l.bad) > 0 {
		return l.bad[0]
	}
	if o := l.outstanding(); o != "[]" {
		return "after closing every store and snapshot, references are still held on: " + o
	}
	return ""
}

func TestBounded_C15_Refs(t *testing.T) {
	const test = "TestBounded_C15_Refs"
	var space []c15Input
	sizes := []int{0, 1, 2, 3, 5, 8}
	if os.Getenv("BOUNDED_TIER") == "thorough" {
		sizes = []int{0, 1, 2, 3, 4, 5, 6, 7, 8, 13, 21, 34}
	}
	for _, n := range sizes {
		for _, op := range c15Ops {
			for _, dirty := range []bool{false, true} {
				space = append(space, c15Input{Op: op, N: n, Dirty: dirty})
			}
		}
	}
	if r := os.Getenv("BOUNDED_REPLAY"); r != "" {
		var v struct {
			Test  string   `json:"test"`
			Input c15Input `json:"input"`
		}
		if json.Unmarshal([]byte(r), &v) != nil || v.Test != test {
			return
		}
		space = []c15Input{v.Input}
	}
	for _, in := range space {
		if what := c15Run(in); what != "" {
			b, _ := json.Marshal(map[string]interface{}{"test": test, "input": in, "what": what})
			fmt.Printf("BOUNDED-VIOLATION %s\n", b)
			t.Errorf("%+v: %s", in, what)
		}
	}
	fmt.Printf("BOUNDED-CASES test=%s cases=%d space=collection sizes %v x probe operation %v x {persisted and re-opened, freshly built}; one probe per run, then everything is closed\n", test, len(space), sizes, c15Ops)
}
