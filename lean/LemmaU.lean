import Mathlib.Tactic

/-- Key/priority skeleton of a treap (item payloads are irrelevant to the shape). -/
inductive TT where
  | leaf : TT
  | node (l : TT) (k p : Int) (r : TT) : TT

namespace TT

def memKP (k p : Int) : TT → Prop
  | leaf => False
  | node l k0 p0 r => (k = k0 ∧ p = p0) ∨ memKP k p l ∨ memKP k p r

def rootPri : TT → Int
  | leaf => -1
  | node _ _ p _ => p

/-- "no child outranks its parent" -/
def heap : TT → Prop
  | leaf => True
  | node l _ p r => heap l ∧ heap r ∧ rootPri l ≤ p ∧ rootPri r ≤ p

/-- search order -/
def bst : TT → Prop
  | leaf => True
  | node l k _ r => bst l ∧ bst r ∧ (∀ k' p', memKP k' p' l → k' < k) ∧ (∀ k' p', memKP k' p' r → k < k')

/-- priorities are non-negative (gkvlite rejects negative ones) -/
def nonneg (t : TT) : Prop := ∀ k p, memKP k p t → 0 ≤ p

/-- distinct items have distinct priorities -/
def distinctPri (t : TT) : Prop :=
  ∀ k1 p1 k2 p2, memKP k1 p1 t → memKP k2 p2 t → p1 = p2 → k1 = k2

theorem heap_le : ∀ (t : TT), heap t → nonneg t → ∀ k p, memKP k p t → p ≤ rootPri t := by
  intro t
  induction t with
  | leaf => intro _ _ k p hm; exact absurd hm (by simp [memKP])
  | node l k0 p0 r ihl ihr =>
    intro h hp k p hm
    obtain ⟨hl, hr, hlp, hrp⟩ := h
    simp only [memKP] at hm
    rcases hm with ⟨_, rfl⟩ | hm | hm
    · simp [rootPri]
    · have := ihl hl (fun k p h => hp k p (by simp [memKP, h])) k p hm
      simp only [rootPri]; omega
    · have := ihr hr (fun k p h => hp k p (by simp [memKP, h])) k p hm
      simp only [rootPri]; omega

/-- Lemma U: a treap is determined by its set of (key, priority) pairs when priorities are distinct. -/
theorem treap_unique : ∀ (t1 t2 : TT),
    bst t1 → heap t1 → bst t2 → heap t2 → nonneg t1 → distinctPri t1 →
    (∀ k p, memKP k p t1 ↔ memKP k p t2) → t1 = t2 := by
  intro t1
  induction t1 with
  | leaf =>
    intro t2 _ _ _ _ _ _ hiff
    cases t2 with
    | leaf => rfl
    | node l k p r =>
      exact absurd ((hiff k p).mpr (by simp [memKP])) (by simp [memKP])
  | node l1 k1 p1 r1 ihl ihr =>
    intro t2 hb1 hh1 hb2 hh2 hn1 hd1 hiff
    cases t2 with
    | leaf => exact absurd ((hiff k1 p1).mp (by simp [memKP])) (by simp [memKP])
    | node l2 k2 p2 r2 =>
      have hn2 : nonneg (node l2 k2 p2 r2) := fun k p h => hn1 k p ((hiff k p).mpr h)
      have m1 : memKP k1 p1 (node l2 k2 p2 r2) := (hiff k1 p1).mp (by simp [memKP])
      have m2 : memKP k2 p2 (node l1 k1 p1 r1) := (hiff k2 p2).mpr (by simp [memKP])
      have le1 : p1 ≤ p2 := by simpa [rootPri] using heap_le _ hh2 hn2 k1 p1 m1
      have le2 : p2 ≤ p1 := by simpa [rootPri] using heap_le _ hh1 hn1 k2 p2 m2
      have hp : p1 = p2 := le_antisymm le1 le2
      have hk : k1 = k2 := hd1 k1 p1 k2 p2 (by simp [memKP]) m2 hp
      subst hp; subst hk
      obtain ⟨hbl1, hbr1, hlt1, hgt1⟩ := hb1
      obtain ⟨hbl2, hbr2, hlt2, hgt2⟩ := hb2
      obtain ⟨hhl1, hhr1, _, _⟩ := hh1
      obtain ⟨hhl2, hhr2, _, _⟩ := hh2
      -- members of the left subtrees coincide: they are the members with key < k1
      have hl : ∀ k p, memKP k p l1 ↔ memKP k p l2 := by
        intro k p
        constructor
        · intro h
          have hlt := hlt1 k p h
          have := (hiff k p).mp (by simp [memKP, h])
          simp only [memKP] at this
          rcases this with ⟨rfl, _⟩ | h' | h'
          · omega
          · exact h'
          · have := hgt2 k p h'; omega
        · intro h
          have hlt := hlt2 k p h
          have := (hiff k p).mpr (by simp [memKP, h])
          simp only [memKP] at this
          rcases this with ⟨rfl, _⟩ | h' | h'
          · omega
          · exact h'
          · have := hgt1 k p h'; omega
      have hr : ∀ k p, memKP k p r1 ↔ memKP k p r2 := by
        intro k p
        constructor
        · intro h
          have hgt := hgt1 k p h
          have := (hiff k p).mp (by simp [memKP, h])
          simp only [memKP] at this
          rcases this with ⟨rfl, _⟩ | h' | h'
          · omega
          · have := hlt2 k p h'; omega
          · exact h'
        · intro h
          have hgt := hgt2 k p h
          have := (hiff k p).mpr (by simp [memKP, h])
          simp only [memKP] at this
          rcases this with ⟨rfl, _⟩ | h' | h'
          · omega
          · have := hlt1 k p h'; omega
          · exact h'
      have el : l1 = l2 := ihl l2 hbl1 hhl1 hbl2 hhl2
        (fun k p h => hn1 k p (by simp [memKP, h]))
        (fun a b c d h1 h2 => hd1 a b c d (by simp [memKP, h1]) (by simp [memKP, h2])) hl
      have er : r1 = r2 := ihr r2 hbr1 hhr1 hbr2 hhr2
        (fun k p h => hn1 k p (by simp [memKP, h]))
        (fun a b c d h1 h2 => hd1 a b c d (by simp [memKP, h1]) (by simp [memKP, h2])) hr
      rw [el, er]

/-- depth of key `k` below depth `d` (search-order descent), as reported to visitors -/
def depthIn (k : Int) (d : Nat) : TT → Option Nat
  | leaf => none
  | node l k0 _ r => if k = k0 then some d else if k < k0 then depthIn k (d+1) l else depthIn k (d+1) r

/-- Corollary: reported depths depend only on the current (key, priority) set. -/
theorem depth_unique (t1 t2 : TT)
    (hb1 : bst t1) (hh1 : heap t1) (hb2 : bst t2) (hh2 : heap t2) (hn : nonneg t1) (hd : distinctPri t1)
    (hiff : ∀ k p, memKP k p t1 ↔ memKP k p t2) (k : Int) :
    depthIn k 0 t1 = depthIn k 0 t2 := by
  rw [treap_unique t1 t2 hb1 hh1 hb2 hh2 hn hd hiff]

end TT

#print axioms TT.treap_unique
