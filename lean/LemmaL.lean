import Mathlib.Tactic

/-!
Lemmas about the specification vocabulary of /verif/govc/prelude.smt2 that the SMT solvers are
given as axioms (they need induction on the tree). The definitions below are transcribed by hand
from the prelude: `GTree`, `mem`, `itemAt`, `bst`, `hp`, `rootPri`, `cnt`; `ikey`/`ipri` are the
uninterpreted key position and priority of an abstract item.
-/

inductive GTree where
  | leaf : GTree
  | node (l : GTree) (i : Int) (r : GTree) : GTree

namespace GTree

variable (ikey ipri : Int → Int)

def mem (k : Int) : GTree → Prop
  | leaf => False
  | node l i r => k = ikey i ∨ mem k l ∨ mem k r

def itemAt (k : Int) : GTree → Int
  | leaf => 0
  | node l i r => if k = ikey i then i else if k < ikey i then itemAt k l else itemAt k r

def bst : GTree → Prop
  | leaf => True
  | node l i r => bst l ∧ bst r ∧ (∀ k, mem ikey k l → k < ikey i) ∧ (∀ k, mem ikey k r → k > ikey i)

def rootPri : GTree → Int
  | leaf => -1
  | node _ i _ => ipri i

def hp : GTree → Prop
  | leaf => True
  | node l i r => hp l ∧ hp r ∧ rootPri ipri l ≤ ipri i ∧ rootPri ipri r ≤ ipri i

def cnt : GTree → Int
  | leaf => 0
  | node l _ r => cnt l + 1 + cnt r

/-- L1: in a heap-ordered search tree no member outranks the root. -/
theorem L1 : ∀ (t : GTree) (k : Int), hp ipri t → bst ikey t → mem ikey k t →
    ipri (itemAt ikey k t) ≤ rootPri ipri t := by
  intro t
  induction t with
  | leaf => intro k _ _ hm; exact absurd hm (by simp [mem])
  | node l i r ihl ihr =>
    intro k hh hb hm
    obtain ⟨hhl, hhr, hlp, hrp⟩ := hh
    obtain ⟨hbl, hbr, hlt, hgt⟩ := hb
    simp only [mem] at hm
    simp only [itemAt, rootPri]
    by_cases hk : k = ikey i
    · simp [hk]
    · simp only [hk, if_false]
      rcases hm with h | h | h
      · exact absurd h hk
      · have hlt' := hlt k h
        simp only [hlt', if_true]
        have := ihl k hhl hbl h
        -- rootPri l ≤ ipri i
        exact le_trans this hlp
      · have hgt' := hgt k h
        have : ¬ k < ikey i := by omega
        simp only [this, if_false]
        have := ihr k hhr hbr h
        exact le_trans this hrp

/-- `cnt` is non-negative (prelude axiom). -/
theorem cnt_nonneg : ∀ t : GTree, 0 ≤ cnt t := by
  intro t
  induction t with
  | leaf => simp [cnt]
  | node l i r ihl ihr => simp only [cnt]; omega

/-- the keys of a tree as a finite set -/
def keys : GTree → Finset Int
  | leaf => ∅
  | node l i r => insert (ikey i) (keys l ∪ keys r)

theorem mem_keys : ∀ (t : GTree) (k : Int), k ∈ keys ikey t ↔ mem ikey k t := by
  intro t
  induction t with
  | leaf => intro k; simp [keys, mem]
  | node l i r ihl ihr =>
    intro k
    simp only [keys, mem, Finset.mem_insert, Finset.mem_union, ihl, ihr]

/-- L2: the node count of a search tree is the number of its keys. -/
theorem L2 : ∀ t : GTree, bst ikey t → ((keys ikey t).card : Int) = cnt t := by
  intro t
  induction t with
  | leaf => intro _; simp [keys, cnt]
  | node l i r ihl ihr =>
    intro hb
    obtain ⟨hbl, hbr, hlt, hgt⟩ := hb
    have hl := ihl hbl
    have hr := ihr hbr
    have hdisj : Disjoint (keys ikey l) (keys ikey r) := by
      rw [Finset.disjoint_left]
      intro k hkl hkr
      have h1 := hlt k ((mem_keys ikey l k).1 hkl)
      have h2 := hgt k ((mem_keys ikey r k).1 hkr)
      omega
    have hni : ikey i ∉ keys ikey l ∪ keys ikey r := by
      intro h
      rcases Finset.mem_union.1 h with h | h
      · have := hlt _ ((mem_keys ikey l _).1 h); omega
      · have := hgt _ ((mem_keys ikey r _).1 h); omega
    simp only [keys, cnt]
    rw [Finset.card_insert_of_notMem hni, Finset.card_union_of_disjoint hdisj]
    push_cast
    omega

/-- L3: a log segment `key lo .. key (hi-1)` that is strictly increasing, holds only keys of the search
tree `t` and holds every key of `t`, has exactly `cnt t` entries (used by `Len`). -/
theorem L3 (t : GTree) (key : Int → Int) (lo hi : Int) (hle : lo ≤ hi) (hb : bst ikey t)
    (hin : ∀ i, lo ≤ i → i < hi → mem ikey (key i) t)
    (hord : ∀ i j, lo ≤ i → i < j → j < hi → key i < key j)
    (hcov : ∀ k, mem ikey k t → ∃ i, lo ≤ i ∧ i < hi ∧ key i = k) :
    hi - lo = cnt t := by
  have himg : (Finset.Ico lo hi).image key = keys ikey t := by
    ext k
    simp only [Finset.mem_image, Finset.mem_Ico, mem_keys]
    constructor
    · rintro ⟨i, ⟨h1, h2⟩, rfl⟩
      exact hin i h1 h2
    · intro hk
      obtain ⟨i, h1, h2, h3⟩ := hcov k hk
      exact ⟨i, ⟨h1, h2⟩, h3⟩
  have hinj : Set.InjOn key (↑(Finset.Ico lo hi) : Set Int) := by
    intro a ha b hb' hab
    simp only [Finset.coe_Ico, Set.mem_Ico] at ha hb'
    by_contra hne
    rcases lt_or_gt_of_ne hne with h | h
    · have := hord a b ha.1 h hb'.2; omega
    · have := hord b a hb'.1 h ha.2; omega
  have hcard := Finset.card_image_of_injOn hinj
  rw [himg] at hcard
  have h2 := L2 ikey t hb
  rw [hcard, Int.card_Ico] at h2
  rw [← h2]
  omega

end GTree

#print axioms GTree.L1
#print axioms GTree.L2
#print axioms GTree.L3
