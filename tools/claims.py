# Claims table read by gen_manifest.py. Levels describe what the checks decide TODAY; they are
# raised only when the functions named in DESIGN.md section 5 for the property are under contract
# and their obligations discharge on the delivered tree. Category "proof" = the statement named in
# the text is a postcondition/invariant of the real functions, discharged for all inputs by the SMT
# back ends from VCs generated out of /repo's go/ssa; category "other" = only fragments of the
# property are decided that way (the text says which) and the rest is out of the technique's reach.

A_COMMON = ("Trusted base: go/types+go/ssa, govc's translation and memory model, the SMT solvers; sequential semantics (one goroutine, "
            "no interference); atomics as plain accesses; mathematical integers with exact conversions; StoreFile/io contracts (A5), "
            "encoding/binary, bytes.Buffer, encoding/json contracts (A6-A8), neutral callbacks (A9); allocator freshness (A13: a node or handle taken from a free list is treated as new); "
            "data-structure invariants that are `relies` clauses (assumed at function entry, re-established by the writers' postconditions, listed in the evidence); "
            "`postulate` clauses (ghost denotations of slots, listed in the evidence); for closures: no retention of function values by callees, stability of `captures` invariants between a closure's creation and its calls, the footprint axiom of visitor invariants (DESIGN 10.1, 10.7).")

A_E2E = (" A bounded END-TO-END cross-check of the same statements on the real code against independent oracles (per property: a map model with all tree invariants checked at every node after every step of pseudo-random Set/Delete/Flush/Evict/re-open histories; an independent root-record validator over files with junk tails, truncations and boundary alignments; FlushRevert histories; a fault injected at every file call of every operation; a read log for value bytes; traces with and without neutral callbacks) runs with every check and is reported separately under coverage.bounded: it exercises the assumptions (slot-denotation postulates, library contracts), and is never counted as proved.")

A_TREE = (" Tree tier: each nodeLoc/itemLoc slot denotes an abstract tree/item held in ghost arrays (tvs/ias); nodeLoc.read/itemLoc.read POSTULATE that what they return denotes the slot "
          "(justified by the codec round trip C14 and the append-only file C09, not re-proved per call) and that a node reachable from a live root has not been recycled (the C10 ownership argument, DESIGN 5.C10; "
          "D6 shows where it breaks). Lemmas about the spec functions that the solvers take as axioms are proved in Lean 4 + Mathlib over hand-transcribed definitions (/verif/lean): L1 (no member of a heap-ordered search tree outranks the root), L2 (cnt of a search tree = number of its keys), U (treap uniqueness).")

claim("C14", "proof",
      "Byte-exact layout of item records (16-byte big-endian header, key, value), 52-byte node records and the root record framing is proved as "
      "postconditions, written from the layout text, of the real encoders (itemBa.render, ploc.write, node.populateDiskStruct, itemLoc.write, "
      "nodeLoc.write, Store.writeRoots) and the real decoders (itemBa.populate, ploc.read, populateNode, itemLoc.read, nodeLoc.read, readRootsEnd, "
      "checkAndReadRoots); encoder and decoder contracts use the same spec functions, so each pair is inverse; writeNodes persists children before parents (P2).",
      A_E2E + A_COMMON + " Not decided by proof: the JSON text inside the root record (library, A8); the bounded cross-check decodes every flushed file of its histories with an INDEPENDENT decoder of the v4 layout (sharing no code with gkvlite) and compares with the store's state.")

claim("C01", "proof",
      "Per-call sorted-map semantics proved over the abstract tree T denoted by the current root: GetItem/Get return the item stored under the key or nil (loop invariant over the descent), "
      "SetItem/Set make T' = T[key := item] with every other key untouched and reject empty/oversized keys, nil values and negative priorities with T unchanged, "
      "Delete reports presence and removes exactly that key, MinItem/MaxItem return the extreme keys (walk, both directions), GetTotals returns cnt(T)/sumb(T); "
      "union/split/join carry the set-level specifications (membership, item-per-key with `that` taking precedence, search order); every lookup leaves all versions untouched. "
      "EvictSomeItems and Flush are proved to change no version and no slot denotation (Flush: every version stays pinned until its own release, under the rely that distinct collections of a store have distinct version objects); a successful Flush is proved to end with the root record as its last write (which is what re-open reads).",
      A_E2E + A_COMMON + A_TREE + " Known findings: Exist has no error result (D9). Histories are covered by induction over calls (each call's relies are the previous calls' ensures), not by exploring sequences. NOT proved: that a re-opened store denotes the flushed trees (JSON root record, A8, and the read postulates); "
      "value BYTES after evict/reload rest on C14+C09 (the abstract item identity is what lookups are proved to return).")

claim("C13", "proof",
      "Proved for every node construction site in union/split/join/SetItem: mkNode is called with numNodes = cnt and numBytes = sumb of the abstract children plus the item (exact aggregates, a precondition of mkNode discharged at every call site, numInfo proved to return them); "
      "search order (bst) is a postcondition of union/split/join/SetItem/Delete; heap order (hp) is preserved by split, join, Delete, and by union/SetItem exactly under the property's own condition (no key overwritten with a lower priority).",
      A_E2E + A_COMMON + A_TREE + " 'Canonical shape' (depth determined by keys and priorities alone) follows from the proved bst+hp postconditions by lemma U (treap uniqueness under distinct priorities), which is proved in Lean (/verif/lean/LemmaU.lean, re-checked by the thorough tier) -- the step from 'the tree is a bst and a heap' to 'the reported depth is the unique one' is that lemma plus visitNodes' proved depth clause, composed on paper; the bounded cross-check additionally compares the depth of every item, after every step, with the depth computed from keys and priorities alone; persisted aggregates = in-memory aggregates rests on the node codec (C14).")

claim("C03", "proof",
      "Proved: the root scan (scanBackwardsForMagicEnd, readRootsScan, checkAndReadRoots, readRoots, NewStoreEx) terminates and opens at the GREATEST position at which a complete, "
      "self-consistent root record ends (or reports that there is none; an I/O error is never mistaken for 'invalid' -- D5, repaired); a position is accepted iff the framing predicate written from the format holds; "
      "Flush writes items, then nodes, then the root record as its LAST write (commit point: magicEndAt(size) and size grew by at least one root record), never touches a byte below the old size, and a failed write leaves size and locations unset.",
      A_E2E + A_COMMON + " Not decided by proof: lemma TornRoot (a strict prefix of a root record contains no valid root end) -- it is covered only by the bounded crash harness (every byte-granular prefix of the file between two completed flushes, 16 flushes with uncommitted values containing magic markers, re-opens to exactly the earlier flush); crash model = prefix of the ordered write sequence.")

claim("C08", "proof",
      "Proved: FlushRevert lands on the greatest valid root strictly below the current one or on the empty store, truncates exactly there (once, never on a snapshot, never writes), refuses memory-only stores, "
      "and terminates (loop variants of the scan; the FlushRevert-to-empty hang D1 was found by the variant obligation and repaired).",
      A_E2E + A_COMMON + " Not decided: that the collections re-read after the revert equal the ones flushed then (JSON decode, A8).")

claim("C09", "proof",
      "Proved for every WriteAt site and their callers up to Flush: writes go only at offsets >= the size at entry, every byte below it is unchanged (samePrefix), other files are untouched; "
      "the read paths under contract (scan, itemLoc.read, nodeLoc.read, GetItem, walk, GetTotals, split/join/union) have the empty write effect by their frame conditions; the single Truncate site is FlushRevert's (exactly once, at a valid root or 0, never on a read-only snapshot).",
      A_E2E + A_COMMON + " Not decided: CopyTo (not under contract).")

claim("C07", "proof",
      "Proved for the functions under contract (codecs, scan/open, writers, Flush, FlushRevert, GetItem, Get, SetItem, Set, Delete, walk, MinItem, MaxItem, GetTotals, union, split, join): every file error is propagated "
      "(ghost counter io.fails: if it grew, the error result is non-nil) -- this found D5 (repaired); failed writes leave size/locations unchanged; every location that a write assigns lies below the store's size at the end of every writer up to Flush, on failure paths too (so a retried Flush never overwrites a record that is still referenced); a failed SetItem/Delete leaves the published root and its denotation unchanged; "
      "no reachable panic (nil dereference, index, slice, explicit panic) under the stated preconditions; every loop and recursion has a variant.",
      A_E2E + A_COMMON + A_TREE + " Known findings (recorded, not repaired): D6 reclaim marks left behind by a failed SetItem/Delete, D9 Exist swallows read errors. Not decided by proof: CopyTo; 'after the fault clears' histories are covered by the bounded fault harness only (which retries a failed Flush on the same store).")

claim("C12", "proof",
      "Proved: SetCollection/RemoveCollection/GetCollection against a finite-map model of the store's collection map (new name => fresh empty collection; existing name => same version object, "
      "only the comparator replaced; other names and handles untouched; the published map object is never mutated; the retry loop never iterates sequentially); collNames/GetCollectionNames return a sorted slice; "
      "closing the replaced handle leaves a still-referenced version untouched (R3) -- this found D4, which was repaired. "
      "BOUNDED (stand-in, not a proof) for the whole-history clause: 60 pseudo-random histories of 60 steps (thorough: 400 of 90) on the real code -- Set, Delete, snapshots and snapshots of snapshots (up to 4 open) closed in any order, SetCollection on an existing name, RemoveCollection, Flush, eviction, churn in a second store sharing the process-wide free lists -- re-reading every open handle against its own map model after every step.",

      A_COMMON + " Not decided: durability of the name set beyond 'the root record is written last' (JSON, A8).")

claim("C15", "other",
      "Proved per function (ghost net[i] = references gkvlite holds, updated only by the callback contracts): the dispatch wrappers on both arms, itemLoc.read (a loaded item has count 1, the replaced cached item is released once, nothing is leaked on error paths, key-only loads release nothing), "
      "mkNode (a copied slot takes a reference), freeNodeUnlocked (the slot's reference is released once), GetItem/walk/MinItem/MaxItem (the caller gets exactly one reference: ghost counter of caller-owed references), Exist, Len, Delete (release what they took -- the leaks D12 in Exist and Len were found by these obligations and repaired), visitNodes and EvictSomeItems (an evicted item's reference is released -- D7 found and repaired), the last release of a version releases its chained successor, Snapshot pins every version.",
      A_COMMON + " The invariant 'every occupied slot is backed by a count' is a `relies` clause; Get cannot release the reference it takes (recorded finding D12c). "
      "BOUNDED (stand-in, not a proof) for what lies outside the contracts -- the block visits, the iterators, CopyTo, and the whole-history clause 'once everything is closed every reference has been released': a ledger driven only by the callbacks over runs of the real code: build n items (n in 0,1,2,3,5,8; thorough up to 34), persist and re-open (or not), ONE probe operation out of 23 (lookups, Len, Min/Max, visits with and without early stop, block visits, eviction, overwrite/insert/delete, snapshot read while the original moves on, iterators run out and abandoned, CopyTo), close everything; no count below zero, nothing handed out with a non-positive count, all counts zero at the end. This found the MinItem reference leaked by VisitItemsAscendBlockEx/VisitItemsRandom (repaired).")

claim("C17", "proof",
      "Every obligation of itemLoc.write/read, Item.NumValBytes/NumBytes, itemLoc.NumBytes and the five dispatch wrappers is generated with the callback fields symbolic (nil or a neutral implementation per A9), "
      "so layout, bookkeeping and accounting are proved for all installation subsets at once; the on-disk value length is the callback's answer when installed.",
      A_E2E + A_COMMON + " 'Neutral' is defined by the functype contracts (A9), including cbvlen(i) == len(i.Val) when the default writer is used with a custom length callback.")

claim("C19", "proof",
      "Proved: itemLoc.read with withValue=false covers no value byte (ghost io.valbytes, counted by the ReadAt contract through an uninterpreted 'value byte' predicate, with the rely that an item record's header and key bytes are not value bytes); "
      "nodeLoc.read issues at most one 52-byte read and covers no value byte; GetItem(withValue=false), Exist, walk/MinItem/MaxItem(withValue=false), GetTotals, SetItem, Set, Delete, union, split, join read no value byte (io.valbytes unchanged is a postcondition of each).",
      A_E2E + A_COMMON + " Not decided: 'open reads only the root record' beyond the scan's own reads; Len and the visits.")

claim("C02", "other",
      "Proved premises P1 (codecs inverse), P2 (writeItems/writeNodes persist children before parents; locations only appear), P3 (each record is written at offset = size with the recorded location {offset, exact length} and size advanced by exactly that) for items, nodes and the root record; "
      "P5's scan part (open lands on the greatest valid root); Flush's commit point is its last write.",
      A_E2E + A_COMMON + " Not decided: P4 (the root record names the pinned versions: JSON, A8), P5's decode part; the end-to-end 'reopen = last flushed state' composition is a paper argument over these premises.")

claim("C10", "other",
      "Local protocol obligations proved: only unmarked nodes get marked and never the sentinel; re-marking moves only nodes carrying the old mark; reclaim frees only nodes carrying this version's mark (R5); a version still referenced after a release is left untouched (R3/R5); the last release of an unchained version frees only that version's root handle (R7); "
      "no double free of nodes, nodeLocs, rootNodeLocs (the panics are unreachable: split/join/union return fresh, unlinked handles, proved); rootCAS chains a still-referenced predecessor (R4); allocators overwrite every field (R6). "
      "BOUNDED (stand-in, not a proof) for the whole-history clause: 60 pseudo-random histories of 60 steps (thorough: 400 of 90) on the real code -- Set, Delete, snapshots and snapshots of snapshots (up to 4 open) closed in any order, SetCollection on an existing name, RemoveCollection, Flush, eviction, churn in a second store sharing the process-wide free lists -- re-reading every open handle against its own map model after every step.",

      A_COMMON + " The whole-heap ownership invariant that ties these together (no node of a live version is on a free list) is a paper argument (DESIGN 5.C10); known finding D6 (marks left by failed mutations) is where it breaks; one separation fact is assumed after the chained release (listed).")

claim("C04", "other",
      "Proved: Snapshot returns a fresh read-only store over the same file and the same version objects, leaving every existing handle and the published map untouched; read-only stores refuse Flush, SetItem, Delete (unchanged state); FlushRevert on a snapshot never truncates or writes; "
      "releasing a handle (closeCollection, rootDecRef) leaves every version that is still referenced untouched (D4 found here, repaired); lookups, walks, visits, GetTotals, EvictSomeItems and Flush leave all versions and their denotations untouched; a mutation (SetItem, Delete) of the original publishes a new version and leaves a version that a snapshot still holds with exactly its contents and one reference fewer (per-call isolation); Snapshot pins every version it copies, also when the source is itself a snapshot. "
      "BOUNDED (stand-in, not a proof) for the whole-history clause: 60 pseudo-random histories of 60 steps (thorough: 400 of 90) on the real code -- Set, Delete, snapshots and snapshots of snapshots (up to 4 open) closed in any order, SetCollection on an existing name, RemoveCollection, Flush, eviction, churn in a second store sharing the process-wide free lists -- re-reading every open handle against its own map model after every step.",

      A_COMMON + " Not decided: isolation over histories (a snapshot keeps reading the old contents while the original mutates) follows from 'mutations publish a new version and leave older version objects' denotations untouched' per call, not explored over interleavings.")

claim("C05", "other",
      "Sequential protocol facts only (no schedule is explored): every function under contract returns with exactly the locks it was entered with, never re-acquires a lock it holds, and holds no gkvlite lock while a StoreFile method or callback runs "
      "(except ItemDecRef inside freeNodeUnlocked, by design); rootAddRef reads and bumps the root under rootLock once; the version stays pinned for the whole visit; an item published in a slot is never written in place (frame of itemLoc.read); collNames is sorted and duplicate-free. "
      "BOUNDED (stand-in, not a proof) for the schedule-level clause: one mutating goroutine (Set/Delete, with Flush + EvictSomeItems for file-backed stores) runs against three reader goroutines on the real code; every whole ascending visit and every point lookup a reader performs must equal the collection's state after some mutation step inside the reader's own start/end window (no mixture of versions), with a 10 s deadlock watchdog: 24 pseudo-random histories of 150 steps (thorough: 120 of 400)."
      + "Plus forced schedules (no reliance on the scheduler): a block enumeration (VisitItemsAscendBlockEx, VisitItemsRandom) parked through the ItemDecRef callback between counting the items and looking up the first one while the single mutator empties, shrinks or grows the collection (this found D14: both panicked on a nil item; repaired). ",
      A_COMMON + " Linearizability in general, lost updates and the benign-ness of the unsynchronised lazy caches are NOT decided (family limit); the bounded harness does not enumerate scheduler interleavings.")

claim("C06", "proof",
      "Proved over a ghost visit log (the visitor contract appends key position, abstract item, depth and has-value flag for each call; returning false sets a stop flag): visitNodes, for both choice functions, delivers only items of the tree in the requested range "
      "(ascend: key >= target; descend: key < target), each with the item stored under that key, its true depth (depth + depthIn) and a value when requested, in strictly ascending/descending order, and -- unless a visitor call returned false or an error occurred -- every key of the range (existential witness in the log); "
      "a false return stops the visit (no further visitor call can follow: the stop flag is a postcondition). VisitItemsAscendEx/DescendEx/Ascend/Descend carry the same clauses from the collection's current root; the order-checking wrapper and the depth-dropping adapters are verified against the visitor contract they are handed to visitNodes under; newIterator carries target and value mode to the producer.",
      A_E2E + A_COMMON + A_TREE + " The iterators' producer/consumer goroutines are outside the subset (only newIterator is under contract); visitors are neutral (A9: they only write the ghost log).")

claim("C18", "other",
      "Sequential obligations only: every visit entry point (VisitItemsAscend/Descend and the Ex variants, which the iterator's producer runs) releases the version it pinned on every path, error paths included (rootNodeLoc.refs is unchanged at exit: a postcondition), "
      "no gkvlite lock is held while a visitor callback, a comparator or a StoreFile method runs (lock-set obligations at every callback site), the version stays pinned for the whole visit (ghost assertion after visitNodes), every function under contract returns with the lock set it was entered with, and newIterator hands the requested target/value mode to the producer. "
      "BOUNDED (stand-in, not a proof): the Next/Close/iterate handshake and re-entrant callbacks are run on the real code for every collection size 0..8 (thorough: 0..24), every number of Next() calls before Close() (0..n+1, i.e. including 'before the first Next' and 'after exhaustion'), both directions and value modes, plus visits whose visitor re-enters reads and (from the mutating goroutine) Set/Delete -- each under a 5 s watchdog, checking the delivered sequence, Next()==false after Close(), idempotent Close(), and that the producer releases its pin (goroutine exit).",
      A_COMMON + " Why bounded: goroutines and channel operations are outside the verifier's subset; the harness does NOT enumerate scheduler interleavings (each case is repeated), so 'for all schedules' is not decided -- a model checker would be the fitting tool for that clause.")

claim("C16", "other",
      "Two parts, labelled separately. PROVED (obligations): Len() == cnt(T), the number of items of the tree denoted by the collection's current root, for every size (postcondition length-is-the-number-of-items). "
      "The count is carried through the visit by a VISITOR INVARIANT: the counting closure's contract defines vinv(self, z) := (l - vis.n == z && !vis.stop) (`tracks`), the visitor function-type contract says every call of any visitor preserves its vinv for every z, "
      "visitNodes and VisitItemsAscendEx (whose order-checking wrapper's invariant is 'an error is recorded, or the inner visitor's invariant') are proved to preserve their visitor's invariant, so after the visit l equals the number of log entries and the visit was not stopped; "
      "the visit contracts give that the log is strictly increasing, holds only keys of T and holds every key of T (MinItem is proved to return the least key, whose order position is the target), and lemma L3 (such a log has cnt(T) entries; proved in Lean, /verif/lean/LemmaL.lean) closes the argument. "
      "Also proved: Len cannot panic at any size (D2, repaired), releases the reference MinItem takes (D12, repaired), reads no value byte, changes no version; determineBlocks yields at most 1024 blocks of positive length and reports blocks only for a non-empty collection; "
      "VisitItemsAscendBlockEx, VisitItemsRandom, their four closures and RandBm are under thin contracts: no reachable panic (the 'impossible' panic, the nil item, every index into the block table: closure invariants over captured variables are asserted where the closure is made and re-proved at its exit), file errors propagate, the reference MinItem takes is released, no version changes, and every item the caller's visitor is presented is an item of the collection (with its value when asked for). "
      "BOUNDED (stand-in, not a proof): 'every item exactly once' for VisitItemsAscendBlockEx (5 block permutations, plus complete inner enumerations run from the outer enumeration's visitor) and VisitItemsRandom (and, again, Len() == n end to end) are decided by running the real functions for every size n in 0..48 and around 1024 and 2048 (thorough: 0..200 and around 1024, 2048, 3072, 4096) -- this found D3 (VisitItemsRandom repeats the last item when the last block is partial), repaired.",
      A_COMMON + " Why the exactly-once clause of the block visits stays bounded: it needs arithmetic over positions in the log (every (lenBlock+1)-th key starts a block; a block's visit delivers the keys between two starts) for which no lemma is stated; the visitor-invariant mechanism now exists, the sequence lemmas do not. "
      "Assumed for the visitor invariants: a function value's invariant depends only on cells that existed when the value was made (footprint axiom), callees do not retain function values beyond the call (their frames would show it), "
      "and a captured variable's invariant (`captures`) is stable between the closure's creation and its calls against writes by the enclosing function (asserted at creation, re-proved at the closure's exit, not re-checked in between).")

claim("C11", "other",
      "Two parts, labelled separately. PROVED (obligations) for CopyTo's building blocks: MinItem returns the least key, VisitItemsAscendEx from it hands the visitor every item exactly once in order with its value, SetItem stores exactly the handed item under its key, EvictSomeItems changes no version and no slot denotation (and evicts nothing on a read-only store), and every one of them leaves the source's versions untouched. "
      "BOUNDED (stand-in, not a proof): CopyTo itself -- equal contents of the copy, of the re-opened copy when flushEvery > 0, compactness (the item records reachable in the copy are exactly the live items' bytes; smaller than a source holding superseded versions), source store and source file byte-for-byte untouched -- is decided by running the real CopyTo over 3108 enumerated cases (thorough: more sizes and flushEvery values): 0..3 collections (one empty), 0..8 items, overwrites, deletes, source state dirty/flushed/evicted/snapshot/re-opened/memory-only, two comparators, flushEvery in {<=0, 1, 2, 3, n, n+1, huge}.",
      A_COMMON + " Why bounded: CopyTo's visitor IS the copy (SetItem into the destination, periodic EvictSomeItems + Flush); the visit contracts assume a neutral visitor (A9), so composing them with this visitor needs a higher-order visitor-invariant contract outside this technique's first-order per-function contracts.")

for pid, why in {
}.items():
    not_yet(pid, why)
