# Claims table read by gen_manifest.py. Levels describe what the checks decide TODAY; they are
# raised only when the functions named in DESIGN.md section 5 for the property are under contract
# and their obligations discharge on the delivered tree.

A_COMMON = ("Trusted base: go/types+go/ssa, govc's translation and memory model, the SMT solvers; sequential semantics (one goroutine, "
            "no interference); atomics as plain accesses; mathematical integers with exact conversions; StoreFile/io contracts (A5), "
            "encoding/binary, bytes.Buffer, encoding/json contracts (A6-A8), neutral callbacks (A9); data-structure invariants that are "
            "`relies` clauses (assumed at function entry, guaranteed by writers' postconditions, listed in the evidence).")

claim("C14", "proof",
      "Byte-exact layout of item records (16-byte big-endian header, key, value), 52-byte node records and the root record framing is proved as "
      "postconditions, written from the layout text, of the real encoders (itemBa.render, ploc.write, node.populateDiskStruct, itemLoc.write, "
      "nodeLoc.write, Store.writeRoots) and the real decoders (itemBa.populate, ploc.read, populateNode, itemLoc.read, nodeLoc.read, readRootsEnd, "
      "checkAndReadRoots); encoder and decoder contracts use the same spec functions, so each pair is inverse.",
      A_COMMON + " Not decided: the JSON text inside the root record (library, A8); children-before-parent order is decided with C02 (writeNodes).")

claim("C03", "other",
      "Proved: the root scan (scanBackwardsForMagicEnd, readRootsScan, checkAndReadRoots) terminates and lands on the GREATEST position at which a complete, "
      "self-consistent root record ends (or reports that there is none); a position is accepted iff the framing predicate written from the format holds; "
      "writeRoots issues exactly one WriteAt and advances size only on success; item/node/root writers only append and a failed write leaves size and the location unset.",
      A_COMMON + " Not decided yet: that the root record is the LAST write of Flush (Flush itself is not under contract yet) and lemma TornRoot (a torn root record contains no valid root end); crash model = prefix of the ordered write sequence.")

claim("C08", "other",
      "Proved for the scan that FlushRevert relies on: termination (loop variants), landing on the greatest valid root at or below the start position or on the empty store "
      "when asked to default to it, never growing size. The FlushRevert-to-empty hang (D1) was found by the variant obligation and repaired.",
      A_COMMON + " Not decided yet: FlushRevert's own contract (truncate argument, read-only snapshots, memory-only stores).")

claim("C09", "other",
      "Proved for every WriteAt site: itemLoc.write, Store.ItemValWrite, nodeLoc.write and writeRoots write only at offsets >= the size at entry, leave every byte below it unchanged "
      "(samePrefix), and do not touch other files; the read paths under contract (scan, itemLoc.read, nodeLoc.read) have the empty write effect by their frame conditions.",
      A_COMMON + " Not decided yet: the effect typing of the remaining read-only API entry points and the single Truncate site (FlushRevert).")

claim("C07", "other",
      "Proved for the functions under contract: every file error is propagated (ghost counter io.fails: if it grew, the error result is non-nil) -- this found and led to the repair of D5; "
      "failed writes leave size/locations unchanged (E3); no reachable panic (nil dereference, index, slice, explicit panic) under the stated preconditions; every loop and recursion has a variant.",
      A_COMMON + " Not decided yet: the public mutation/lookup/visit entry points (SetItem, Delete, GetItem, visits, Flush, CopyTo) -- their E1/E3 clauses come with the tree tier.")

claim("C12", "other",
      "Proved: SetCollection/RemoveCollection/GetCollection against a finite-map model of the store's collection map (new name => fresh empty collection; existing name => same version object, "
      "only the comparator replaced; other names and handles untouched; the published map object is never mutated; the retry loop never iterates sequentially); collNames/GetCollectionNames return a sorted slice; "
      "closing the replaced handle leaves a still-referenced version untouched (R3) -- this found D4, which was repaired.",
      A_COMMON + " Not decided yet: durability of the name set (root record contents, with Flush).")

claim("C15", "other",
      "Proved per function (ghost net[i] = references gkvlite holds, updated only by the callback contracts): the dispatch wrappers on both arms, itemLoc.read (a loaded item has count 1, the replaced cached item is released once, nothing is leaked on error paths), "
      "mkNode (a copied slot takes a reference), freeNodeUnlocked (the slot's reference is released once).",
      A_COMMON + " The invariant 'every occupied slot is backed by a count' is a `relies` clause; the public entry points and the visits (known leaks D7, D12) are not under contract yet.")

claim("C17", "other",
      "Every obligation of itemLoc.write/read, Item.NumValBytes/NumBytes, itemLoc.NumBytes and the five dispatch wrappers is generated with the callback fields symbolic (nil or a neutral implementation per A9), "
      "so layout, bookkeeping and accounting are proved for all installation subsets at once; the on-disk value length is the callback's answer when installed.",
      A_COMMON + " 'Neutral' is defined by the functype contracts (A9), including cbvlen(i) == len(i.Val) when the default writer is used with a custom length callback.")

claim("C19", "other",
      "Proved: itemLoc.read with withValue=false covers no value byte (ghost io.valbytes, counted by the ReadAt contract through an uninterpreted 'value byte' predicate, with the rely that an item record's header and key bytes are not value bytes); "
      "nodeLoc.read issues at most one 52-byte read and covers no value byte; populateNode loads nothing else.",
      A_COMMON + " Not decided yet: the key-only API entry points built on them and 'open reads only the root record'.")

claim("C02", "other",
      "Proved premises P1 (codecs inverse) and P3 (each record is written at offset = size with the recorded location {offset, exact length} and size advanced by exactly that) for items, nodes and the root record; "
      "P5's scan part (open lands on the greatest valid root).",
      A_COMMON + " Not decided yet: P2 (children before parents: writeItems/writeNodes), P4 (the root record names the pinned versions), P5's decode part.")

claim("C10", "other",
      "Local protocol obligations proved: only unmarked nodes get marked and never the sentinel; re-marking moves only nodes carrying the old mark; reclaim frees only nodes carrying this version's mark (R5); a version still referenced after a release is left untouched (R3/R5); "
      "no double free of nodes, nodeLocs, rootNodeLocs (the panics are unreachable under the stated preconditions); rootCAS chains a still-referenced predecessor (R4); allocators overwrite every field (R6).",
      A_COMMON + " The whole-heap ownership invariant that ties these together (no node of a live version is on a free list) is a paper argument (DESIGN 5.C10); allocator freshness A13 is postulated at mk* call sites; one separation fact is assumed after the chained release (listed).")

claim("C04", "other",
      "Proved so far: releasing a handle (closeCollection, rootDecRef) leaves every version that is still referenced untouched; rootAddRef/rootDecRef change exactly one count.",
      A_COMMON + " Not decided yet: Snapshot, the read-only guards, Close/FlushRevert on snapshots.")

claim("C05", "other",
      "Sequential protocol facts only (no schedule is explored): every function under contract returns with exactly the locks it was entered with, never re-acquires a lock it holds, and holds no gkvlite lock while a StoreFile method or callback runs "
      "(except ItemDecRef inside freeNodeUnlocked, by design); rootAddRef reads and bumps the root under rootLock once; collNames is sorted.",
      A_COMMON + " Linearizability, lost updates and the benign-ness of the unsynchronised lazy caches are NOT decided (family limit).")

for pid, why in {
    "C01": "tree tier (union/split/join and the public map operations) not under contract yet in this round",
    "C06": "visitNodes / range visits not under contract yet in this round",
    "C11": "CopyTo not under contract yet in this round",
    "C13": "tree invariants come with the tree tier; not claimed yet in this round",
    "C16": "Len and the block visits not under contract yet in this round",
    "C18": "iterator (goroutine + channels) is outside the verifier's subset; the sequential obligations (pins released, no lock across callbacks) are not claimed yet",
}.items():
    not_yet(pid, why)
