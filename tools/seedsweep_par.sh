#!/bin/bash
# usage: seedsweep_par.sh [jobs] [seed-id ...]  -- like seedsweep.sh, but each seeded change is applied to its own scratch worktree of
# /repo HEAD (under /tmp, removed afterwards) and several are checked at a time; /repo's working tree is not touched.
# Results are MERGED into seeded/RESULTS.tsv (lines of re-run seeds are replaced) and each meta.json.
cd /verif
J=${1:-5}; shift
SEEDS="$@"
[ -z "$SEEDS" ] && SEEDS=$(ls -d seeded/C*/ | xargs -n1 basename)
BIN=${GOVC_BIN:-/verif/bin/govc}
OUT=/tmp/seedsweep_par; rm -rf $OUT; mkdir -p $OUT
one() {
  S=$1; P=${S:0:3}; WT=/tmp/sweepwt_$S
  git -C /repo worktree add --detach -q $WT HEAD 2>/dev/null || { echo "$S cannot create worktree" > $OUT/$S.log; return; }
  if ! (cd $WT && (git apply /verif/seeded/$S/patch.diff 2>/dev/null || (git apply --3way /verif/seeded/$S/patch.diff >/dev/null 2>&1 && [ -z "$(git diff --name-only --diff-filter=U)" ]))); then
    echo "PATCH-DOES-NOT-APPLY" > $OUT/$S.log
  else
    t0=$(date +%s)
    timeout 1500 $BIN check $P --tier quick --repo $WT --contracts /repo/contracts_verif.go --verif /verif --no-evidence > $OUT/$S.log 2>&1
    echo "EXIT=$? SECONDS=$(( $(date +%s) - t0 ))" >> $OUT/$S.log
  fi
  git -C /repo worktree remove --force $WT 2>/dev/null; rm -rf $WT
}
export -f one; export OUT BIN
echo $SEEDS | tr ' ' '\n' | xargs -P $J -I{} bash -c 'one {}'
python3 - $SEEDS <<'P'
import sys,json,re,os
seeds=sys.argv[1:]
res={}
if os.path.exists('/verif/seeded/RESULTS.tsv'):
    for l in open('/verif/seeded/RESULTS.tsv'):
        if l.strip(): res[l.split('\t')[0]]=l.rstrip('\n')
for s in seeds:
    out=open('/tmp/seedsweep_par/%s.log'%s).read()
    p=s[:3]
    if 'PATCH-DOES-NOT-APPLY' in out:
        res[s]='%s\t%s\tPATCH-DOES-NOT-APPLY\t'%(s,p); continue
    m=re.search(r'EXIT=(\d+)',out); rc=m.group(1) if m else '?'
    vl=[l for l in out.split('\n') if l.startswith('VIOLATION')]
    viol=' '.join(re.sub(r'.*replay=/verif/out/replays/','',l).split('.json')[0] for l in vl[:3])
    repro='yes' if any('no-failing-input-found' not in l for l in vl) else 'no'
    res[s]='%s\t%s\texit=%s\treproduced=%s\t%s'%(s,p,rc,repro,viol)
    f='/verif/seeded/%s/meta.json'%s
    m=json.load(open(f))
    m['detected_by']=([{"check":"./check %s --tier quick"%p,"obligations_or_cases":viol.split()}] if rc=='1' else [])
    m['detected']=(rc=='1'); m['reproduced_on_real_code']=(repro=='yes')
    json.dump(m,open(f,'w'),indent=1)
open('/verif/seeded/RESULTS.tsv','w').write('\n'.join(res[k] for k in sorted(res))+'\n')
for s in seeds: print(res[s][:200])
P
