#!/bin/bash
# usage: [SWEEP_VERIF=dir] seedsweep_par.sh [jobs] [seed-id ...]
# Like seedsweep.sh, but each seeded change is applied to its own scratch worktree (under /tmp, removed afterwards) of the commit
# that /repo's HEAD names WHEN THE SWEEP STARTS, with the contract file of that commit, and several are checked at a time; /repo's
# working tree is not touched, so the sweep can run (e.g. under `vp run`) while work goes on. Results are MERGED into
# $V/seeded/RESULTS.tsv (lines of re-run seeds are replaced) and each $V/seeded/<id>/meta.json.
V=${SWEEP_VERIF:-/verif}
cd $V || exit 2
J=${1:-5}; shift
SEEDS="$@"
[ -z "$SEEDS" ] && SEEDS=$(ls -d seeded/C*/ | xargs -n1 basename)
BIN=${GOVC_BIN:-$V/bin/govc}
OUT=/tmp/seedsweep_par_$$; rm -rf $OUT; mkdir -p $OUT
SHA=$(git -C /repo rev-parse HEAD)
git -C /repo show $SHA:contracts_verif.go > $OUT/contracts_verif.go
echo "sweep of $(echo $SEEDS | wc -w) seeded changes against /repo $SHA, verif $V ($(git -C $V rev-parse --short HEAD 2>/dev/null)), $J at a time"
one() {
  S=$1; P=${S:0:3}; WT=/tmp/sweepwt_$$_$S
  git -C /repo worktree add --detach -q $WT $SHA 2>/dev/null || { echo "cannot create worktree" > $OUT/$S.log; return; }
  if ! (cd $WT && (git apply $V/seeded/$S/patch.diff 2>/dev/null || (git apply --3way $V/seeded/$S/patch.diff >/dev/null 2>&1 && [ -z "$(git diff --name-only --diff-filter=U)" ]))); then
    echo "PATCH-DOES-NOT-APPLY" > $OUT/$S.log
  else
    t0=$(date +%s)
    timeout 1800 $BIN check $P --tier quick --repo $WT --contracts $OUT/contracts_verif.go --verif $V --no-evidence > $OUT/$S.log 2>&1
    echo "EXIT=$? SECONDS=$(( $(date +%s) - t0 ))" >> $OUT/$S.log
  fi
  git -C /repo worktree remove --force $WT 2>/dev/null; rm -rf $WT
  echo "done $S: $(tail -1 $OUT/$S.log)"
}
export -f one; export OUT BIN V SHA
echo $SEEDS | tr ' ' '\n' | xargs -P $J -I{} bash -c 'one {}'
python3 - $V $OUT $SHA $SEEDS <<'P'
import sys,json,re,os
V,OUT,SHA=sys.argv[1:4]; seeds=sys.argv[4:]
res={}
if os.path.exists(V+'/seeded/RESULTS.tsv'):
    for l in open(V+'/seeded/RESULTS.tsv'):
        if l.strip(): res[l.split('\t')[0]]=l.rstrip('\n')
for s in seeds:
    out=open('%s/%s.log'%(OUT,s)).read()
    p=s[:3]
    if 'PATCH-DOES-NOT-APPLY' in out:
        res[s]='%s\t%s\tPATCH-DOES-NOT-APPLY\t'%(s,p); continue
    m=re.search(r'EXIT=(\d+)',out); rc=m.group(1) if m else '?'
    vl=[l for l in out.split('\n') if l.startswith('VIOLATION')]
    viol=' '.join(re.sub(r'.*replay=\S*/out/replays/','',l).split('.json')[0] for l in vl[:3])
    repro='yes' if any('no-failing-input-found' not in l for l in vl) else 'no'
    res[s]='%s\t%s\texit=%s\treproduced=%s\t%s'%(s,p,rc,repro,viol)
    f='%s/seeded/%s/meta.json'%(V,s)
    m=json.load(open(f))
    m['detected_by']=([{"check":"./check %s --tier quick"%p,"obligations_or_cases":viol.split()}] if rc=='1' else [])
    m['detected']=(rc=='1'); m['reproduced_on_real_code']=(repro=='yes'); m['swept_at_repo_commit']=SHA
    json.dump(m,open(f,'w'),indent=1)
open(V+'/seeded/RESULTS.tsv','w').write('\n'.join(res[k] for k in sorted(res))+'\n')
for s in seeds: print(res[s][:200])
P
rm -rf $OUT
