#!/bin/bash
# usage: mut.sh <patch.diff> <govc args...>   -- run govc against a scratch worktree of /repo HEAD with the patch applied
P=$1; shift
D=/tmp/mut_$$
git -C /repo worktree add --detach -q $D HEAD || exit 2
(cd $D && git apply $P) || { echo "patch does not apply"; git -C /repo worktree remove --force $D; exit 2; }
/verif/bin/govc "$@" --repo $D --contracts /repo/contracts_verif.go
rc=$?
git -C /repo worktree remove --force $D
exit $rc
