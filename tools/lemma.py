#!/usr/bin/env python3
"""debug helper: lemma.py script.smt2 '<smt formula>' [--keep-goal] : replaces the final goal of a govc script by
(not <formula>) (or adds the formula as an extra hypothesis with --hyp) and runs z3-new."""
import sys, subprocess, tempfile
src=open(sys.argv[1]).read().rstrip().split('\n')
assert src[-1].startswith('(check-sat')
goal=src[-2]
f=sys.argv[2]
if '--hyp' in sys.argv:
    out=src[:-2]+['(assert %s)'%f, goal, '(check-sat)']
else:
    out=src[:-2]+['(assert (not %s))'%f, '(check-sat)']
t=tempfile.NamedTemporaryFile('w',suffix='.smt2',delete=False); t.write('\n'.join(out)+'\n'); t.close()
import time; t0=time.time()
r=subprocess.run(['z3-new','-T:20',t.name],capture_output=True,text=True)
print(r.stdout.strip().split('\n')[0], '%.1fs'%(time.time()-t0))
