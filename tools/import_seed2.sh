#!/bin/bash
# usage: import_seed2.sh <PROP>  -- confirm a second-round sub-agent seed (/tmp/wt2_<PROP>/seed_c) and keep it as /verif/seeded/<PROP>c
set -u
P=$1; PFX=${2:-wt2}; SFX=${3:-c}; WT=/tmp/${PFX}_$P; SD=$WT/seed_c; OUT=/verif/seeded/${P}${SFX}
export GOFLAGS=-mod=mod GOPROXY=off GOSUMDB=off GOTOOLCHAIN=local
[ -f $SD/patch.diff ] || { echo "$P: no patch"; exit 1; }
TMP=/tmp/imp2_$P; rm -rf $TMP; mkdir -p $TMP; cp $SD/patch.diff $SD/demo_test.go $SD/notes.md $TMP/
cd $WT && git checkout -q -- '*.go' ':!contracts_verif.go' 2>/dev/null; rm -f zz_seed_demo_test.go
mv $SD $WT/../seed_c_$P.hold   # keep go test ./... from seeing a stray package
TN=$(grep -o 'func Test[A-Za-z0-9_]*' $TMP/demo_test.go | head -1 | sed 's/func //')
cp $TMP/demo_test.go zz_seed_demo_test.go
go test -vet=off -count=1 -timeout 300s -run "^${TN}\$" . >/dev/null 2>&1; r_clean=$?
git apply $TMP/patch.diff || { echo "$P: patch does not apply"; rm -f zz_seed_demo_test.go; mv $WT/../seed_c_$P.hold $SD; exit 1; }
go test -vet=off -count=1 -timeout 300s -run "^${TN}\$" . >/dev/null 2>&1; r_demo=$?
rm -f zz_seed_demo_test.go
go test -vet=off -count=1 -timeout 10m ./... >/dev/null 2>&1; r_suite=$?
git checkout -q -- '*.go' ':!contracts_verif.go' 2>/dev/null
mv $WT/../seed_c_$P.hold $SD
echo "$P c: demo_on_clean=$r_clean (want 0) demo_with_patch=$r_demo (want !=0) suite_with_patch=$r_suite (want 0) test=$TN"
if [ "$r_clean" = 0 ] && [ "$r_demo" != 0 ] && [ "$r_suite" = 0 ]; then
  mkdir -p $OUT && cp $TMP/patch.diff $TMP/demo_test.go $TMP/notes.md $OUT/
  python3 - "$P" "$TN" "$SFX" <<'PY'
import json,sys
P,TN,SFX=sys.argv[1:4]
meta={"id":P+SFX,"breaks_property":P,"demo_test":TN,"round":({"c":2,"d":4,"e":5}.get(SFX,3)),
 "needs_to_manifest":"see notes.md (written by the sub-agent that produced the change)",
 "confirmed_by":"tools/import_seed2.sh in the sub-agent's scratch worktree of the repaired tree: demo passes on the unchanged tree; with the patch the whole suite passes and the demo fails",
 "note":"later-round seed, produced AFTER the contracts were written and not used to shape them",
 "detected_by":[]}
json.dump(meta,open('/verif/seeded/%s%s/meta.json'%(P,SFX),'w'),indent=1)
PY
  echo "$P c: KEPT"
else
  echo "$P c: REJECTED"
fi
rm -rf $TMP
