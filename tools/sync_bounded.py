#!/usr/bin/env python3
"""regenerates the end-to-end bounded harnesses from govc/replay/replay_test.go (support copy + wrapper per
property) and the C04/C12 copies of the C10 history harness"""
import json
src=open('/verif/govc/replay/replay_test.go').read()
body=src[src.index("import ("):]
MAP="12 pseudo-random histories of 60 steps (Set with rising or arbitrary priorities, Delete, Flush, EvictSomeItems, close + re-open; default and reverse comparator) against a map model; after every step: search order, exact count and byte total at every node, heap order while no key was overwritten with a lower priority, GetTotals, lookups of present and absent keys, Min/Max, ascending and descending visits from every key and from absent targets with early stops, reported depths; plus rejected items under three callback sets"
SCAN="flushed files of several histories with junk tails (incl. magic markers), truncations, the smallest root record, and root records ending just past 512/4096-byte boundaries followed by the first bytes of a later flush: the store opens at the greatest complete, self-consistent root record found by an independent validator, or reports that there is none"
FLUSH="every Flush (also one with nothing changed) appends a complete root record beyond the old size and leaves all bytes below it unchanged"
CFG={
 "C01":("rpMap(t)",MAP),"C06":("rpMap(t)",MAP),"C13":("rpMap(t)",MAP),
 "C02":("rpMap(t); rpDecode(t); rpFlush(t); rpScan(t)","an independent decoder of the file reconstructs the store's state after every Flush; "+"the histories of the C01 harness (which re-open the file after a Flush and compare with the model); "+FLUSH+"; "+SCAN),
 "C03":("rpScan(t); rpFlush(t); rpCrash(t)",SCAN+"; "+FLUSH+"; crash at any point: 4 histories of 4 flushes (uncommitted values containing the magic markers and root-record fragments, a removed collection): EVERY byte-granular prefix of the file between two completed flushes re-opens to exactly the state of the earlier one (or fails with the no-roots error before the first flush completed), and the recovered store flushes again"),
 "C14":("rpDecode(t); rpScan(t); rpFlush(t)","an INDEPENDENT decoder of the v4 layout (root record framing and JSON, 52-byte node records, 16-byte item headers; children and items before their parent; exact aggregates in every node record) reconstructs, after every Flush of 8 pseudo-random multi-collection histories (collection names include ones that JSON must escape: quote, backslash, C0 control characters, DEL, non-ASCII, a code point beyond the BMP), exactly the store's state; "+SCAN+"; "+FLUSH),
 "C09":("rpFlush(t); rpScan(t); rpLazy(t)",FLUSH+"; opening any of the corpus files writes nothing"),
 "C08":("rpRevert(t)","8 pseudo-random histories of 2..5 flushes over two collections (values up to 700 bytes, a removed collection), unflushed changes on top, then FlushRevert step by step down to the empty store and once more: file length, store contents and re-opened contents equal the state of the flush reverted to; FlushRevert on the empty store returns; memory-only stores refuse"),
 "C17":("rpNeutral(t)","one fixed pseudo-random history of 80 steps (SetItem incl. nil values, Delete, Flush, close + re-open, eviction; after each step Get, Exist, GetTotals and a full visit) played without callbacks, with 6 subsets of neutral callbacks, and with a RECYCLING reference counter (ItemAlloc/ItemAddRef/ItemDecRef that overwrite an item's key and value bytes when its count returns to zero, as a pooling allocator reusing the buffers would): the traces of everything observable (incl. Len, a block visit and MinItem every fifth step), and the final file length, must be identical"),
 "C19":("rpLazy(t)","stores of 1, 3, 9, 40 persisted items re-opened through a file that records every ReadAt: opening issues at most 2 reads; GetItem(key-only), Exist, MinItem/MaxItem, Len, key-only visits in both directions, Set, Delete, GetTotals touch no byte of any item's value (value ranges taken from the item locations of the real tree)"),
 "C07":("rpFaults(t)","a persisted store of 9 items; for every k in 1..14 the k-th StoreFile call (ReadAt, WriteAt with a torn half write, Stat) fails once during: open, GetItem, Get, a visit with values, MinItem, GetTotals, Len, Set, Set of a new key, Delete, Set+Flush, a Flush of three new items, FlushRevert. Required: an error whenever the fault was hit (never success with wrong or older data), no panic, no hang; after a failed read the same store still answers everything correctly; after a failed mutation/Flush the file re-opens to the last flushed state and a retried change is durable; a Flush that failed at any of its file calls is retried ON THE SAME in-memory store once the file works again, must succeed, and the file must then re-open to the store's full contents (the store is re-opened after a failed mutation: marks left behind are the recorded finding D6; Exist is not probed: recorded finding D9)"),
}
for P,(call,what) in CFG.items():
    q=P.lower()
    import os
    os.makedirs('/verif/bounded/%s'%P,exist_ok=True)
    hdr="package gkvlite\n\n// Support code of the bounded harness of %s: a copy of /verif/govc/replay/replay_test.go (run-time evaluation of the\n// contracts on the real code against independent oracles), generated by tools/sync_bounded.py. See %s_test.go.\n\n"%(P,q)
    open('/verif/bounded/%s/%s_support_test.go'%(P,q),'w').write(hdr+body)
    w='''package gkvlite

// BOUNDED cross-check for %s (DESIGN 10.3), generated by tools/sync_bounded.py: the contracts of the functions behind
// %s are proved per call, with the slot-denotation postulates and the library contracts as assumptions. This harness
// evaluates the same statements END TO END on the real code against independent oracles, over a fixed finite
// space -- a check of those assumptions, labelled bounded and never counted as proved.

import (
	"fmt"
	"testing"
)

func TestBounded_%s_EndToEnd(t *testing.T) {
	const test = "TestBounded_%s_EndToEnd"
	ok := t.Run("oracle", func(t *testing.T) { %s })
	if !ok {
		fmt.Printf("BOUNDED-VIOLATION {\\"test\\":%%q,\\"input\\":{},\\"what\\":\\"the end-to-end oracle failed; the failing step is in the harness output\\"}\\n", test)
	}
	fmt.Printf("BOUNDED-CASES test=%%s cases=%%d space=%%s\\n", test, rpCases, %s)
}
'''%(P,P,P,P,call,json.dumps(what))
    open('/verif/bounded/%s/%s_test.go'%(P,q),'w').write(w)
c10=open('/verif/bounded/C10/c10_test.go').read()
c10body=c10[c10.index("import ("):]
for P in ["C04","C12"]:
    q=P.lower()
    t=c10body.replace("c10",q).replace("C10_Histories",P+"_Histories").replace("TestBounded_C10","TestBounded_"+P)
    hdr="package gkvlite\n\n// BOUNDED stand-in for the whole-history clauses of %s: the same pseudo-random histories as /verif/bounded/C10/c10_test.go\n// (this file is generated from it by tools/sync_bounded.py); see the comment there. Bounded, not a proof.\n\n"%P
    open('/verif/bounded/%s/%s_test.go'%(P,q),'w').write(hdr+t)
print("synced", sorted(CFG))
