#!/usr/bin/env python3
"""regenerates the copies of govc/replay/replay_test.go that the end-to-end bounded harnesses use
(bounded/<P>/<p>_support_test.go) and the C04/C12 copies of the C10 history harness"""
import re
src=open('/verif/govc/replay/replay_test.go').read()
body=src[src.index("import ("):]
for P in ["C01","C02","C03","C06","C09","C13","C14"]:
    q=P.lower()
    hdr="package gkvlite\n\n// Support code of the bounded harness of %s: a copy of /verif/govc/replay/replay_test.go (run-time evaluation of the\n// contracts on the real code against independent oracles). See %s_test.go in this directory.\n\n"%(P,q)
    open('/verif/bounded/%s/%s_support_test.go'%(P,q),'w').write(hdr+body)
c10=open('/verif/bounded/C10/c10_test.go').read()
c10body=c10[c10.index("import ("):]
for P in ["C04","C12"]:
    q=P.lower()
    t=c10body.replace("c10",q).replace("C10_Histories",P+"_Histories").replace("TestBounded_C10","TestBounded_"+P)
    hdr="package gkvlite\n\n// BOUNDED stand-in for the whole-history clauses of %s: the same pseudo-random histories as /verif/bounded/C10/c10_test.go\n// (this file is generated from it by tools/sync_bounded.py); see the comment there. Bounded, not a proof.\n\n"%P
    open('/verif/bounded/%s/%s_test.go'%(P,q),'w').write(hdr+t)
print("synced")
