#!/bin/bash
# runs every seeded change against the check of the property it breaks; writes /verif/seeded/RESULTS.tsv and meta.json.detected_by
cd /verif
: > seeded/RESULTS.tsv
for d in seeded/C*/; do
  S=$(basename $d)
  P=${S:0:3}
  out=$(tools/seedcheck.sh $S $P 2>&1)
  if echo "$out" | grep -q "does not apply"; then
    echo -e "$S\t$P\tPATCH-DOES-NOT-APPLY\t" >> seeded/RESULTS.tsv; continue
  fi
  rc=$(echo "$out" | grep -o "exit=[0-9]*" | head -1 | cut -d= -f2)
  viol=$(echo "$out" | grep "^VIOLATION" | sed 's/.*replay=\/verif\/out\/replays\///; s/\.json.*//' | head -3 | tr '\n' ' ')
  repro=no; echo "$out" | grep "^VIOLATION" | grep -qv "no-failing-input-found" && repro=yes
  echo -e "$S\t$P\texit=$rc\treproduced=$repro\t$viol" >> seeded/RESULTS.tsv
  python3 - "$S" "$rc" "$viol" "$repro" <<'P'
import json,sys
s,rc,viol,repro=sys.argv[1],sys.argv[2],sys.argv[3],sys.argv[4]
f='/verif/seeded/%s/meta.json'%s
m=json.load(open(f))
m['detected_by']=([{"check":"./check %s --tier quick"%s[:3],"obligations_or_cases":viol.split()}] if rc=='1' else [])
m['detected']=(rc=='1')
m['reproduced_on_real_code']=(repro=='yes')
json.dump(m,open(f,'w'),indent=1)
P
done
cat seeded/RESULTS.tsv
