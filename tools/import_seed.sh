#!/bin/bash
# usage: import_seed.sh <PROP> <a|b>  -- confirm a sub-agent's seeded change in its scratch worktree and keep it under /verif/seeded/
set -u
P=$1; S=$2
WT=/tmp/wt_$P; SD=$WT/seed_$S; OUT=/verif/seeded/${P}${S}
export GOFLAGS=-mod=mod GOPROXY=off GOSUMDB=off GOTOOLCHAIN=local
[ -f $SD/patch.diff ] || { echo "$P$S: no patch"; exit 1; }
cd $WT && git checkout -q -- . && rm -f zz_seed_demo_test.go
TN=$(grep -o 'func Test[A-Za-z0-9_]*' $SD/demo_test.go | head -1 | sed 's/func //')
cp $SD/demo_test.go zz_seed_demo_test.go
r_clean=$(timeout 300 go test -vet=off -count=1 -timeout 200s -run "^${TN}\$" . >/tmp/seed_${P}${S}_clean.log 2>&1; echo $?)
git apply $SD/patch.diff || { echo "$P$S: patch does not apply"; git checkout -q -- .; rm -f zz_seed_demo_test.go; exit 1; }
r_demo=$(timeout 300 go test -vet=off -count=1 -timeout 200s -run "^${TN}\$" . >/tmp/seed_${P}${S}_mut.log 2>&1; echo $?)
rm -f zz_seed_demo_test.go
r_suite=$(./RUNTESTS.sh >/tmp/seed_${P}${S}_suite.log 2>&1; echo $?)
git checkout -q -- .
echo "$P$S: demo_on_clean=$r_clean (want 0) demo_with_patch=$r_demo (want !=0) suite_with_patch=$r_suite (want 0) test=$TN"
if [ "$r_clean" = 0 ] && [ "$r_demo" != 0 ] && [ "$r_suite" = 0 ]; then
  mkdir -p $OUT && cp $SD/patch.diff $OUT/patch.diff && cp $SD/demo_test.go $OUT/demo_test.go && cp $SD/notes.md $OUT/notes.md
  python3 - "$P" "$S" "$TN" <<'PY'
import json,sys
P,S,TN=sys.argv[1:4]
notes=open(f'/tmp/wt_{P}/seed_{S}/notes.md').read()
meta={"id":f"{P}{S}","breaks_property":P,"demo_test":TN,
 "needs_to_manifest":"see notes.md (written by the sub-agent that produced the change)",
 "confirmed_by":"tools/import_seed.sh in the sub-agent's scratch worktree: demo passes on the unchanged tree; with the patch the 46+2 stable tests pass and the demo fails",
 "commands":[f"go test -vet=off -count=1 -run ^{TN}$ .  (unchanged: pass; patched: fail)","./RUNTESTS.sh (patched: pass)"],
 "detected_by":[]}
json.dump(meta,open(f'/verif/seeded/{P}{S}/meta.json','w'),indent=1)
PY
  echo "$P$S: KEPT"
else
  echo "$P$S: REJECTED"
fi
