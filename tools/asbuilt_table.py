#!/usr/bin/env python3
"""prints the as-built verdict table (DESIGN 10.0) from MANIFEST.json and the evidence of the last run"""
import json
m=json.load(open('/verif/MANIFEST.json'))
rows=["| id | category | functions under contract | obligations discharged / claimed | recorded findings | bounded stand-in (cases) | quick wall |","|---|---|---|---|---|---|---|"]
tot=[0,0]
for c in m['checks']:
    pid=c['property_id']; e=json.load(open('/verif/evidence/%s.json'%pid)); cov=e['coverage']
    b=cov.get('bounded')
    rows.append("| %s | %s | %d | %d / %d | %s | %s | %ds |"%(pid,c['level_claimed']['category'],len(cov['functions_under_contract']),cov['discharged'],cov['obligations'],len(cov.get('known_findings') or []), ("%s (%d)"%(', '.join(t.replace('TestBounded_','') for t in b['tests']),b['cases'])) if b else '—', round(e['wall_s'])))
print('\n'.join(rows))
