#!/bin/bash
# usage: seedcheck.sh <seed-id> [prop ...]  -- applies /verif/seeded/<id>/patch.diff to /repo, runs the checks, reverts
S=$1; shift
P=/verif/seeded/$S/patch.diff
cd /repo || exit 2
if ! git diff --quiet; then echo "repo dirty"; exit 2; fi
if git apply --check $P 2>/dev/null; then
  git apply $P
elif git apply --3way $P >/dev/null 2>&1 && [ -z "$(git diff --name-only --diff-filter=U)" ]; then
  git reset -q   # keep the merged working tree, drop the index changes
else
  git reset -q --hard HEAD
  echo "SEED $S: patch does not apply"; exit 3
fi
PROPS="$@"
[ -z "$PROPS" ] && PROPS=$(python3 -c "import json;print(json.load(open('/verif/seeded/$S/meta.json')).get('property','${S:0:3}'))")
for p in $PROPS; do
  out=$(cd /verif && ./check $p --tier quick --no-evidence 2>&1); rc=$?
  echo "SEED $S prop $p exit=$rc"
  echo "$out" | grep -E "^(VIOLATION|UNDECIDED)" | cut -c1-260 | head -8
done
cd /repo; git reset -q --hard HEAD; git status --short | head -3
