#!/bin/bash
# runs every claimed check (quick tier by default) and validates the evidence files
TIER=${1:-quick}
cd /verif
rc=0
for p in $(python3 -c "import json;print(' '.join(c['property_id'] for c in json.load(open('MANIFEST.json'))['checks']))"); do
  out=$(./check $p --tier $TIER 2>&1); r=$?
  echo "$out" | grep -E "^(SUMMARY|VIOLATION|KNOWN-FINDING|UNDECIDED)" | cut -c1-220
  [ $r -ne 0 ] && { echo "CHECK $p exit $r"; rc=1; }
done
python3-vt - <<'P'
import json,glob,jsonschema
s=json.load(open('/root/.vp/EVIDENCE.schema.json'))
for f in sorted(glob.glob('/verif/evidence/*.json')):
    jsonschema.validate(json.load(open(f)),s)
print("evidence files valid:", len(glob.glob('/verif/evidence/*.json')))
P
exit $rc
