#!/usr/bin/env python3
"""prints the seeded-change table of DESIGN 10.6 from seeded/RESULTS.tsv and the seeds' notes"""
import json,os
rows=[l.rstrip('\n').split('\t') for l in open('/verif/seeded/RESULTS.tsv')]
print("| seed | round | breaks | change (one line) | reported by (first obligations / bounded cases) | failing input reproduced on the real code |")
print("|---|---|---|---|---|---|")
for r in rows:
    sid,prop,rc,repro,viol=(r+['','','','',''])[:5]
    meta=json.load(open('/verif/seeded/%s/meta.json'%sid))
    rnd='canary' if meta.get('canary') else str(meta.get('round',1))
    notes=open('/verif/seeded/%s/notes.md'%sid).read().split('\n')
    title=next((l for l in notes if l.startswith('# ')),'# ').lstrip('# ').strip()
    for sep in ('—',' -- ',' - '):
        if sep in title:
            title=title.split(sep,1)[-1].strip(); break
    v=[x.replace(prop+'-','',1) for x in viol.split()[:2]]
    kind='**bounded** ' if any('bounded' in x for x in v) else ''
    rep='yes' if repro=='reproduced=yes' else ('no (`no-failing-input-found`)' if rc=='exit=1' else '—')
    print("| %s | %s | %s | %s | %s%s | %s |"%(sid,rnd,prop,title[:100].replace('|','/'),kind,', '.join('`%s`'%x for x in v) if rc=='exit=1' else 'not reported by this property\'s check (see text)',rep))
