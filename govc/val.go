package main

import (
	"fmt"
	"go/types"
	"math/big"
	"strings"

	"golang.org/x/tools/go/ssa"
)

// Sorts are SMT sort strings: "Int", "Bool", "Slice", "Tree", "(Array Int Int)" ...
const (
	SInt   = "Int"
	SBool  = "Bool"
	SSlice = "Slice"
)

type ValKind int

const (
	VTerm     ValKind = iota // a single SMT term
	VTuple                   // multi-value (call results)
	VStruct                  // struct value (fields in declaration order)
	VFieldPtr                // pointer to a non-struct field/cell: heap array + base ref
	VFunc                    // statically known function (no closure state)
	VClosure                 // statically known closure (function + bindings)
	VNone                    // no value (calls with no results)
)

type Val struct {
	Dyn types.Type // dynamic type of a value boxed in an interface (MakeInterface of a pointer)
	K     ValKind
	T     string     // SMT term (VTerm)
	S     string     // sort of T
	Ty    types.Type // Go type, when known
	Elems []Val      // VTuple / VStruct
	Field string     // VFieldPtr: heap array name
	Base  string     // VFieldPtr: base reference term
	ESort string     // VFieldPtr: element sort
	Idx   string     // VFieldPtr: element index for two-level memory (slice backing arrays, array cells)
	Fn    *ssa.Function
	Bind  []Val
	AbsOf string // bound index variable of `forall i in S`: the slice term S it ranges over
	AbsJ  string // ... and the absolute position (soff(S)+i) that is the actual bound SMT variable
}

func term(t, s string, ty types.Type) Val { return Val{K: VTerm, T: t, S: s, Ty: ty} }
func intv(t string) Val                   { return Val{K: VTerm, T: t, S: SInt} }
func boolv(t string) Val                  { return Val{K: VTerm, T: t, S: SBool} }

func (v Val) String() string {
	switch v.K {
	case VTerm:
		return v.T
	case VTuple, VStruct:
		var a []string
		for _, e := range v.Elems {
			a = append(a, e.String())
		}
		return "<" + strings.Join(a, ", ") + ">"
	case VFieldPtr:
		return "&" + v.Field + "[" + v.Base + "]"
	case VFunc, VClosure:
		return "fn:" + v.Fn.String()
	}
	return "<none>"
}

// ---- SMT term helpers ----

func app(f string, args ...string) string {
	if len(args) == 0 {
		return f
	}
	return "(" + f + " " + strings.Join(args, " ") + ")"
}
func and(xs ...string) string {
	var ys []string
	for _, x := range xs {
		if x == "true" || x == "" {
			continue
		}
		if x == "false" {
			return "false"
		}
		ys = append(ys, x)
	}
	if len(ys) == 0 {
		return "true"
	}
	if len(ys) == 1 {
		return ys[0]
	}
	return app("and", ys...)
}
func or(xs ...string) string {
	var ys []string
	for _, x := range xs {
		if x == "false" || x == "" {
			continue
		}
		if x == "true" {
			return "true"
		}
		ys = append(ys, x)
	}
	if len(ys) == 0 {
		return "false"
	}
	if len(ys) == 1 {
		return ys[0]
	}
	return app("or", ys...)
}
func not(x string) string {
	if x == "true" {
		return "false"
	}
	if x == "false" {
		return "true"
	}
	if strings.HasPrefix(x, "(not ") && balancedOne(x[5:len(x)-1]) {
		return x[5 : len(x)-1]
	}
	return app("not", x)
}
func balancedOne(s string) bool {
	// true if s is a single balanced s-expression or atom
	depth := 0
	for i, c := range s {
		if c == '(' {
			depth++
		} else if c == ')' {
			depth--
			if depth == 0 && i != len(s)-1 {
				return false
			}
		} else if c == ' ' && depth == 0 {
			return false
		}
	}
	return depth == 0
}
func implies(a, b string) string {
	if a == "true" {
		return b
	}
	if a == "false" || b == "true" {
		return "true"
	}
	return app("=>", a, b)
}
func eq(a, b string) string {
	if a == b {
		return "true"
	}
	return app("=", a, b)
}
func ite(c, a, b string) string {
	if c == "true" {
		return a
	}
	if c == "false" {
		return b
	}
	return app("ite", c, a, b)
}
func sel(a, i string) string      { return app("select", a, i) }
func store(a, i, v string) string { return app("store", a, i, v) }
func num(n int64) string {
	if n < 0 {
		return fmt.Sprintf("(- %d)", -n)
	}
	return fmt.Sprintf("%d", n)
}
func bignum(n *big.Int) string {
	if n.Sign() < 0 {
		return "(- " + new(big.Int).Neg(n).String() + ")"
	}
	return n.String()
}
func quote(s string) string {
	// SMT-LIB quoted symbol; '|' and '\' are not allowed inside
	s = strings.ReplaceAll(s, "|", "!")
	s = strings.ReplaceAll(s, "\\", "!")
	simple := true
	for _, c := range s {
		if !(c == '_' || c == '.' || c == '$' || c == '!' || (c >= '0' && c <= '9') || (c >= 'a' && c <= 'z') || (c >= 'A' && c <= 'Z')) {
			simple = false
			break
		}
	}
	if simple && len(s) > 0 && !(s[0] >= '0' && s[0] <= '9') {
		return s
	}
	return "|" + s + "|"
}

// ---- Go types to sorts ----

func sortOf(t types.Type) string {
	switch u := t.Underlying().(type) {
	case *types.Basic:
		if u.Info()&types.IsBoolean != 0 {
			return SBool
		}
		return SInt // integers, strings (ids), untyped nil, unsafe pointers
	case *types.Slice:
		return SSlice
	case *types.Array:
		return "(Array Int " + sortOf(u.Elem()) + ")"
	case *types.Struct:
		return "" // struct values are VStruct
	case *types.Tuple:
		return ""
	}
	return SInt // pointers, maps, chans, funcs, interfaces
}

func isStruct(t types.Type) bool {
	_, ok := t.Underlying().(*types.Struct)
	return ok
}
func isArray(t types.Type) bool {
	_, ok := t.Underlying().(*types.Array)
	return ok
}

// typeName gives the short name used in heap array names.
func typeName(t types.Type) string {
	switch u := t.(type) {
	case *types.Named:
		o := u.Obj()
		if o.Pkg() != nil && o.Pkg().Name() != "gkvlite" {
			return o.Pkg().Name() + "." + o.Name()
		}
		return o.Name()
	case *types.Pointer:
		return "*" + typeName(u.Elem())
	case *types.Array:
		return fmt.Sprintf("[%d]%s", u.Len(), typeName(u.Elem()))
	case *types.Slice:
		return "[]" + typeName(u.Elem())
	case *types.Basic:
		return u.Name()
	}
	return types.TypeString(t, func(p *types.Package) string { return p.Name() })
}

// intRange returns the range of an integer type (ok=false for non-integers).
func intRange(t types.Type) (lo, hi *big.Int, ok bool) {
	b, isb := t.Underlying().(*types.Basic)
	if !isb || b.Info()&types.IsInteger == 0 {
		return nil, nil, false
	}
	bits := 64
	signed := true
	switch b.Kind() {
	case types.Int8:
		bits = 8
	case types.Int16:
		bits = 16
	case types.Int32:
		bits = 32
	case types.Int64, types.Int:
		bits = 64
	case types.Uint8:
		bits, signed = 8, false
	case types.Uint16:
		bits, signed = 16, false
	case types.Uint32:
		bits, signed = 32, false
	case types.Uint64, types.Uint, types.Uintptr:
		bits, signed = 64, false
	case types.UntypedInt, types.UntypedRune:
		return nil, nil, false
	}
	one := big.NewInt(1)
	if signed {
		hi = new(big.Int).Sub(new(big.Int).Lsh(one, uint(bits-1)), one)
		lo = new(big.Int).Neg(new(big.Int).Lsh(one, uint(bits-1)))
	} else {
		lo = big.NewInt(0)
		hi = new(big.Int).Sub(new(big.Int).Lsh(one, uint(bits)), one)
	}
	return lo, hi, true
}

func rangeFact(t types.Type, x string) string {
	lo, hi, ok := intRange(t)
	if !ok {
		return "true"
	}
	return and(app("<=", bignum(lo), x), app("<=", x, bignum(hi)))
}

// wrapFrom: like wrapTo but uses the source type, when known, to avoid mod:
// same-width sign changes are a single ite.
func wrapFrom(dst, src types.Type, x string) string {
	dlo, dhi, ok1 := intRange(dst)
	if src != nil {
		slo, shi, ok2 := intRange(src)
		if ok1 && ok2 {
			if dlo.Cmp(slo) <= 0 && dhi.Cmp(shi) >= 0 {
				return x
			}
			dw := new(big.Int).Sub(dhi, dlo)
			sw := new(big.Int).Sub(shi, slo)
			if dw.Cmp(sw) == 0 {
				m := new(big.Int).Add(dw, big.NewInt(1))
				if dlo.Sign() == 0 {
					// signed -> unsigned
					return ite(app(">=", x, "0"), x, app("+", x, m.String()))
				}
				// unsigned -> signed
				return ite(app("<=", x, bignum(dhi)), x, app("-", x, m.String()))
			}
		}
	}
	return wrapTo(dst, x)
}

// wrapTo converts mathematical integer x to the value a Go conversion to type t yields.
func wrapTo(t types.Type, x string) string {
	lo, hi, ok := intRange(t)
	if !ok {
		return x
	}
	mod := new(big.Int).Add(new(big.Int).Sub(hi, lo), big.NewInt(1))
	if lo.Sign() == 0 {
		return app("mod", x, mod.String())
	}
	// signed: ((x - lo) mod 2^n) + lo
	return app("+", app("mod", app("-", x, bignum(lo)), mod.String()), bignum(lo))
}

func rangeIncludes(dst, src types.Type) bool {
	dlo, dhi, ok1 := intRange(dst)
	slo, shi, ok2 := intRange(src)
	if !ok1 || !ok2 {
		return true
	}
	return dlo.Cmp(slo) <= 0 && dhi.Cmp(shi) >= 0
}
