package main

// Translation of contract expressions to SMT terms.

import (
	"fmt"
	"go/constant"
	"go/types"
	"golang.org/x/tools/go/ssa"
	"math/big"
	"strings"
)

type Env struct {
	x       *Exec
	st      *State
	old     *Snapshot // state for old(); nil means old(e) == e
	inOld   bool
	vars    map[string]Val
	entry   *Snapshot // entry of the function under verification (for fresh())
	bound   map[string]bool
	oldVars map[string]Val    // entry values of (reassigned) parameters, visible inside old()
	patc    *patCollector     // collects default triggers while a quantifier body is translated
	derefOv map[string]string // pointer term -> value: captured cells that nobody writes once the closure exists
}

// patCollector gathers candidate triggers for a quantifier: reads of the CURRENT state indexed
// exactly by a bound variable. Using only those as triggers makes frame-shaped facts fire from
// new-state terms towards old-state terms, never the other way round.
type patCollector struct {
	bound map[string]bool
	pats  []string
	seen  map[string]bool
}

func (e *Env) notePattern(idx, t string) {
	if e.patc == nil || e.inOld || !e.patc.bound[idx] || e.patc.seen[t] {
		return
	}
	e.patc.seen[t] = true
	e.patc.pats = append(e.patc.pats, t)
}

type specErr string

func (e *Env) fail(f string, a ...interface{}) { panic(specErr(fmt.Sprintf(f, a...))) }

func (e *Env) sub(vars map[string]Val) *Env {
	n := *e
	n.vars = map[string]Val{}
	for k, v := range e.vars {
		n.vars[k] = v
	}
	for k, v := range vars {
		n.vars[k] = v
	}
	return &n
}

func (e *Env) heap(name, esort string) string {
	if e.inOld && e.old != nil {
		return e.old.H(e.x, name, esort)
	}
	return e.st.H(name, esort)
}

func (e *Env) ghostv(name string) string {
	if e.inOld && e.old != nil {
		return e.old.G(e.x, name)
	}
	return e.st.G(name)
}

func (e *Env) nowv() string {
	if e.inOld && e.old != nil {
		return e.old.now
	}
	return e.st.now
}

// evalBool evaluates a contract expression that must be boolean.
func (e *Env) evalBool(ex Expr) (res string, err error) {
	defer func() {
		if r := recover(); r != nil {
			if se, ok := r.(specErr); ok {
				err = fmt.Errorf("%s", string(se))
				return
			}
			panic(r)
		}
	}()
	v := e.eval(ex)
	if v.K != VTerm || v.S != SBool {
		return "", fmt.Errorf("expression %s is not boolean (got %s %s)", exprString(ex), v.S, v.String())
	}
	return v.T, nil
}

func (e *Env) evalTerm(ex Expr) (res Val, err error) {
	defer func() {
		if r := recover(); r != nil {
			if se, ok := r.(specErr); ok {
				err = fmt.Errorf("%s", string(se))
				return
			}
			panic(r)
		}
	}()
	return e.eval(ex), nil
}

func (e *Env) eval(ex Expr) Val {
	switch v := ex.(type) {
	case *ENum:
		return intv(bignum(v.V))
	case *EStr:
		return term(num(int64(e.x.strID(e.st, v.S))), SInt, types.Typ[types.String])
	case *EIdent:
		return e.ident(v.Name)
	case *EOld:
		n := *e
		n.inOld = true
		if len(e.oldVars) > 0 {
			n.vars = map[string]Val{}
			for k, val := range e.vars {
				n.vars[k] = val
			}
			for k, val := range e.oldVars {
				n.vars[k] = val
			}
		}
		return n.eval(v.X)
	case *EUnary:
		return e.unary(v)
	case *EBinary:
		return e.binary(v)
	case *ECond:
		c := e.eval(v.C)
		a := asTerm(e.eval(v.A))
		b := asTerm(e.eval(v.B))
		if c.S != SBool || a.K != VTerm || b.K != VTerm {
			e.fail("bad conditional %s", exprString(ex))
		}
		r := a
		r.T = ite(c.T, a.T, b.T)
		return r
	case *ESel:
		// dotted ghost / qualified names first
		if dn := dottedName(v); dn != "" {
			lv, isVar := e.vars[rootIdent(v)]
			if isVar && e.x.isGhost(dn) {
				// a Go local that happens to share its name with a ghost prefix (a visitor closure called
				// `vis`): a value without fields cannot be meant by `vis.n`, the ghost is
				if _, _, isStructRef := structOf(lv.Ty); !isStructRef && lv.K != VStruct {
					isVar = false
				}
			}
			if !isVar {
				if e.x.isGhost(dn) {
					return term(e.ghostv(dn), e.x.ghostSort(dn), nil)
				}
			}
		}
		// raw heap array: T.f (for quantification over all objects: T.f[m])
		if dn := dottedName(v); dn != "" {
			if _, isVar := e.vars[rootIdent(v)]; !isVar {
				if arr, es := e.x.arrayByName(dn); arr != "" {
					return term(e.heap(arr, es), "(Array Int "+es+")", nil)
				}
			}
		}
		base := e.eval(v.X)
		return e.selectField(base, v.Name, ex)
	case *EIndex:
		base := e.eval(v.X)
		idx := e.eval(v.I)
		return e.index(base, idx, ex)
	case *ECall:
		return e.call(v)
	case *EQuant:
		return e.quant(v)
	}
	e.fail("cannot evaluate %s", exprString(ex))
	return Val{}
}

func rootIdent(ex Expr) string {
	for {
		switch v := ex.(type) {
		case *EIdent:
			return v.Name
		case *ESel:
			ex = v.X
		default:
			return ""
		}
	}
}

func (e *Env) ident(name string) Val {
	switch name {
	case "true":
		return boolv("true")
	case "false":
		return boolv("false")
	case "nil":
		return Val{K: VTerm, T: "0", S: SInt, Ty: types.Typ[types.UntypedNil]}
	case "now":
		return intv(e.nowv())
	}
	if v, ok := e.vars[name]; ok {
		return v
	}
	if e.x.isGhost(name) {
		return term(e.ghostv(name), e.x.ghostSort(name), nil)
	}
	// package-level objects
	if obj := e.x.v.pkg.Pkg.Scope().Lookup(name); obj != nil {
		switch o := obj.(type) {
		case *types.Const:
			return constVal(e.x, e.st, o.Val(), o.Type())
		case *types.Var:
			return e.x.loadGlobal(e, name, o.Type())
		}
	}
	e.fail("unknown identifier %q", name)
	return Val{}
}

func constVal(x *Exec, st *State, c constant.Value, t types.Type) Val {
	switch c.Kind() {
	case constant.Bool:
		if constant.BoolVal(c) {
			return boolv("true")
		}
		return boolv("false")
	case constant.Int:
		bi, ok := new(big.Int).SetString(c.ExactString(), 10)
		if !ok {
			bi = big.NewInt(0)
		}
		return term(bignum(bi), SInt, t)
	case constant.String:
		return term(num(int64(x.strID(st, constant.StringVal(c)))), SInt, t)
	}
	return term("0", SInt, t)
}

// loadGlobal returns the value of package variable `name`: struct/array typed
// globals evaluate to their address (reference).
func (x *Exec) loadGlobal(e *Env, name string, t types.Type) Val {
	if isStruct(t) || isArray(t) {
		return term(x.globalRef(name), SInt, types.NewPointer(t))
	}
	es := sortOf(t)
	arr := "G." + name
	x.notePtr(arr, t)
	var h string
	if e != nil {
		h = e.heap(arr, es)
	}
	return term(sel(h, "0"), es, t)
}

func (x *Exec) globalRef(name string) string {
	s := quote("&" + name)
	x.decl(s, SInt)
	x.v.noteGlobalRef(name)
	return s
}

func (e *Env) unary(v *EUnary) Val {
	a := e.eval(v.X)
	switch v.Op {
	case "!":
		if a.S != SBool {
			e.fail("! on non-boolean %s", exprString(v.X))
		}
		return boolv(not(a.T))
	case "-":
		return intv(app("-", a.T))
	case "&":
		// address of an embedded struct: selectField already yields the reference
		return a
	}
	e.fail("bad unary %s", v.Op)
	return Val{}
}

// asTerm views a function constant / closure as the reference it evaluates to.
func asTerm(v Val) Val {
	if (v.K == VFunc || v.K == VClosure) && v.T != "" {
		return Val{K: VTerm, T: v.T, S: SInt, Ty: v.Ty}
	}
	return v
}

func isNilVal(v Val) bool {
	if v.Ty == nil {
		return false
	}
	b, ok := v.Ty.(*types.Basic)
	return ok && b.Kind() == types.UntypedNil
}

func (e *Env) binary(v *EBinary) Val {
	switch v.Op {
	case "&&", "||", "==>", "<==>":
		a := e.eval(v.X)
		b := e.eval(v.Y)
		if a.S != SBool || b.S != SBool {
			e.fail("boolean operator %s on non-boolean operands in %s", v.Op, exprString(v))
		}
		switch v.Op {
		case "&&":
			return boolv(and(a.T, b.T))
		case "||":
			return boolv(or(a.T, b.T))
		case "==>":
			return boolv(implies(a.T, b.T))
		default:
			return boolv(eq(a.T, b.T))
		}
	}
	a := asTerm(e.eval(v.X))
	b := asTerm(e.eval(v.Y))
	if a.K != VTerm || b.K != VTerm {
		e.fail("operator %s on composite values in %s", v.Op, exprString(v))
	}
	switch v.Op {
	case "==", "!=":
		var t string
		switch {
		case a.S == SSlice && isNilVal(b):
			t = eq(app("sarr", a.T), "0")
		case b.S == SSlice && isNilVal(a):
			t = eq(app("sarr", b.T), "0")
		case a.S != b.S:
			e.fail("comparison of different sorts %s vs %s in %s", a.S, b.S, exprString(v))
		default:
			t = eq(a.T, b.T)
		}
		if v.Op == "!=" {
			t = not(t)
		}
		return boolv(t)
	case "<", "<=", ">", ">=":
		return boolv(app(v.Op, a.T, b.T))
	case "+", "-", "*":
		return intv(app(v.Op, a.T, b.T))
	case "/":
		return intv(app("div", a.T, b.T))
	case "%":
		return intv(app("mod", a.T, b.T))
	}
	e.fail("bad operator %s", v.Op)
	return Val{}
}

// structOf returns the struct type a value refers to (value is a pointer/reference to it).
func structOf(t types.Type) (*types.Struct, string, bool) {
	if t == nil {
		return nil, "", false
	}
	if p, ok := t.Underlying().(*types.Pointer); ok {
		if s, ok := p.Elem().Underlying().(*types.Struct); ok {
			return s, typeName(p.Elem()), true
		}
	}
	return nil, "", false
}

func (e *Env) selectField(base Val, name string, ex Expr) Val {
	if base.K == VStruct {
		st, ok := base.Ty.Underlying().(*types.Struct)
		if !ok {
			e.fail("struct value without struct type in %s", exprString(ex))
		}
		for i := 0; i < st.NumFields(); i++ {
			if st.Field(i).Name() == name {
				return base.Elems[i]
			}
		}
		e.fail("no field %s in %s", name, exprString(ex))
	}
	if base.K != VTerm {
		e.fail("field selection on %s in %s", base.String(), exprString(ex))
	}
	st, tn, ok := structOf(base.Ty)
	if !ok {
		e.fail("field selection .%s on non-struct-pointer (%v) in %s", name, base.Ty, exprString(ex))
	}
	for i := 0; i < st.NumFields(); i++ {
		f := st.Field(i)
		if f.Name() != name {
			continue
		}
		r := e.x.fieldRead(e.heap, base.T, tn, f)
		if strings.HasPrefix(r.T, "(select ") {
			e.notePattern(base.T, r.T)
		}
		return r
	}
	e.fail("no field %s in type %s (%s)", name, tn, exprString(ex))
	return Val{}
}

// fieldRead reads field f of the struct (type name tn) at reference base.
func (x *Exec) fieldRead(heap func(name, esort string) string, base, tn string, f *types.Var) Val {
	ft := f.Type()
	if isStruct(ft) || isArray(ft) {
		lf := x.locFnFor(tn, f.Name(), ft)
		return term(app(quote(lf.name), base), SInt, types.NewPointer(ft))
	}
	es := sortOf(ft)
	x.notePtr(tn+"."+f.Name(), ft)
	return term(sel(heap(tn+"."+f.Name(), es), base), es, ft)
}

// isRefType: values of this type are object references (subject to the allocation-closure axiom)
func isRefType(t types.Type) bool {
	if t == nil {
		return false
	}
	switch t.Underlying().(type) {
	case *types.Pointer, *types.Map, *types.Chan:
		return true
	}
	return false
}

func mapName(elem types.Type) string {
	if isRefType(elem) {
		return "map.ptr"
	}
	return "map." + sortOf(elem)
}

func memName(esort string, elem types.Type) string {
	if elem != nil {
		if b, ok := elem.Underlying().(*types.Basic); ok && (b.Kind() == types.Uint8 || b.Kind() == types.Int8) {
			return "mem.byte"
		}
	}
	if isRefType(elem) {
		return "mem.ptr"
	}
	switch esort {
	case SInt:
		return "mem.Int"
	case SBool:
		return "mem.Bool"
	case SSlice:
		return "mem.Slice"
	}
	return "mem." + esort
}

func (e *Env) index(base, idx Val, ex Expr) Val {
	if base.K != VTerm || idx.K != VTerm {
		e.fail("bad index %s", exprString(ex))
	}
	if base.S == SSlice {
		var elem types.Type
		es := SInt
		if base.Ty != nil {
			if sl, ok := base.Ty.Underlying().(*types.Slice); ok {
				elem = sl.Elem()
				es = sortOf(elem)
			}
		} else {
			elem = types.Typ[types.Uint8]
		}
		m := e.heap(memName(es, elem), "(Array Int "+es+")")
		if idx.AbsOf != "" && idx.AbsOf == base.T {
			return term(sel(sel(m, app("sarr", base.T)), idx.AbsJ), es, elem)
		}
		return term(sel(sel(m, app("sarr", base.T)), app("+", app("soff", base.T), idx.T)), es, elem)
	}
	if strings.HasPrefix(base.S, "(Array Int ") {
		es := strings.TrimSuffix(strings.TrimPrefix(base.S, "(Array Int "), ")")
		var et types.Type
		if base.Ty != nil {
			if a, ok := base.Ty.Underlying().(*types.Array); ok {
				et = a.Elem()
			}
		}
		r := sel(base.T, idx.T)
		e.notePattern(idx.T, r)
		return term(r, es, et)
	}
	// pointer to array (embedded array field)
	if base.Ty != nil {
		if p, ok := base.Ty.Underlying().(*types.Pointer); ok {
			if a, ok := p.Elem().Underlying().(*types.Array); ok {
				es := sortOf(a.Elem())
				h := e.heap(arrMemName(p.Elem()), "(Array Int "+es+")")
				return term(sel(sel(h, base.T), idx.T), es, a.Elem())
			}
		}
		if m, ok := base.Ty.Underlying().(*types.Map); ok {
			es := sortOf(m.Elem())
			h := e.heap(mapName(m.Elem()), "(Array Int "+es+")")
			r := sel(sel(h, base.T), idx.T)
			e.notePattern(idx.T, r)
			return term(r, es, m.Elem())
		}
	}
	e.fail("cannot index %s (sort %s)", exprString(ex), base.S)
	return Val{}
}

func (e *Env) quant(q *EQuant) Val {
	vars := map[string]Val{}
	var decls []string
	var names []string
	for k, n := range q.Vars {
		sym := e.x.freshBound(n)
		vars[n] = intv(sym)
		if k < len(q.Types) && q.Types[k] != "" {
			tn := strings.TrimPrefix(q.Types[k], "*")
			obj := e.x.v.pkg.Pkg.Scope().Lookup(tn)
			if obj == nil {
				e.fail("unknown type %s in quantifier", tn)
			}
			var ty types.Type = obj.Type()
			if strings.HasPrefix(q.Types[k], "*") {
				ty = types.NewPointer(ty)
			}
			vars[n] = term(sym, SInt, ty)
		}
		decls = append(decls, "("+sym+" Int)")
		names = append(names, sym)
	}
	// `forall i in S :: ...` over the valid indices of slice S: the bound SMT variable is the absolute
	// position j = soff(S)+i, so that S[i] is the plain read (select content j) -- a usable trigger
	if q.Lo != nil && q.Hi == nil {
		sv := e.eval(q.Lo)
		if sv.S != SSlice {
			e.fail("`in` without range needs a slice")
		}
		j := names[0]
		iv := intv(app("-", j, app("soff", sv.T)))
		iv.AbsOf, iv.AbsJ = sv.T, j
		vars[q.Vars[0]] = iv
		ne := e.sub(vars)
		body := ne.eval(q.Body)
		if body.S != SBool {
			e.fail("quantifier body not boolean")
		}
		rng := and(app("<=", app("soff", sv.T), j), app("<", j, app("+", app("soff", sv.T), app("slen", sv.T))))
		var b string
		kw := "exists"
		if q.All {
			kw = "forall"
			b = implies(rng, body.T)
		} else {
			b = and(rng, body.T)
		}
		b = e.withPatterns(ne, q, b)
		return boolv("(" + kw + " (" + strings.Join(decls, " ") + ") " + b + ")")
	}
	ne := e.sub(vars)
	pc := &patCollector{bound: map[string]bool{}, seen: map[string]bool{}}
	for _, n := range names {
		pc.bound[n] = true
	}
	if len(names) == 1 {
		ne.patc = pc
	}
	body := ne.eval(q.Body)
	if body.S != SBool {
		e.fail("quantifier body not boolean")
	}
	b := body.T
	if len(q.Pats) == 0 && len(pc.pats) > 0 && len(pc.pats) <= 6 && q.All {
		var sb strings.Builder
		sb.WriteString("(! " + b)
		for _, pt := range pc.pats {
			sb.WriteString(" :pattern (" + pt + ")")
		}
		sb.WriteString(")")
		defer func() {}()
		autoPat := sb.String()
		if q.Lo == nil {
			kw := "forall"
			return boolv("(" + kw + " (" + strings.Join(decls, " ") + ") " + autoPat + ")")
		}
	}
	if q.Lo != nil {
		lo := ne.eval(q.Lo)
		hi := ne.eval(q.Hi)
		rng := and(app("<=", lo.T, names[0]), app("<", names[0], hi.T))
		if q.All {
			b = implies(rng, b)
		} else {
			b = and(rng, b)
		}
	}
	kw := "exists"
	if q.All {
		kw = "forall"
	}
	b = e.withPatterns(ne, q, b)
	return boolv("(" + kw + " (" + strings.Join(decls, " ") + ") " + b + ")")
}

// withPatterns attaches the user-given triggers to a quantifier body.
func (e *Env) withPatterns(ne *Env, q *EQuant, body string) string {
	if len(q.Pats) == 0 {
		return body
	}
	var sb strings.Builder
	sb.WriteString("(! " + body)
	for _, grp := range q.Pats {
		sb.WriteString(" :pattern (")
		for k, pe := range grp {
			if k > 0 {
				sb.WriteString(" ")
			}
			sb.WriteString(ne.eval(pe).T)
		}
		sb.WriteString(")")
	}
	sb.WriteString(")")
	return sb.String()
}

func (x *Exec) freshBound(n string) string {
	x.counter++
	return quote(fmt.Sprintf("%s?%d", n, x.counter))
}

func pow256(k int) string {
	return new(big.Int).Exp(big.NewInt(256), big.NewInt(int64(k)), nil).String()
}

// beValue: big-endian value of n bytes of slice b starting at index i.
func (e *Env) beValue(b Val, i string, n int) string {
	m := e.heap("mem.byte", "(Array Int Int)")
	content := sel(m, app("sarr", b.T))
	var parts []string
	for k := 0; k < n; k++ {
		byteK := sel(content, app("+", app("soff", b.T), i, num(int64(k))))
		if n-1-k == 0 {
			parts = append(parts, byteK)
		} else {
			parts = append(parts, app("*", pow256(n-1-k), byteK))
		}
	}
	return app("+", parts...)
}

func (e *Env) call(c *ECall) Val {
	arg := func(i int) Val {
		if i >= len(c.Args) {
			e.fail("%s: missing argument %d", c.Fun, i)
		}
		return e.eval(c.Args[i])
	}
	switch c.Fun {
	case "len":
		a := arg(0)
		if a.S == SSlice {
			return intv(app("slen", a.T))
		}
		if a.Ty != nil {
			if b, ok := a.Ty.Underlying().(*types.Basic); ok && b.Info()&types.IsString != 0 {
				return intv(app("strlen", a.T))
			}
			if ar, ok := a.Ty.Underlying().(*types.Array); ok {
				return intv(num(ar.Len()))
			}
			if p, ok := a.Ty.Underlying().(*types.Pointer); ok {
				if ar, ok := p.Elem().Underlying().(*types.Array); ok {
					return intv(num(ar.Len()))
				}
			}
		}
		e.fail("len of %s", exprString(c.Args[0]))
	case "cap":
		return intv(app("scap", arg(0).T))
	case "arr":
		return intv(app("sarr", arg(0).T))
	case "off":
		return intv(app("soff", arg(0).T))
	case "content":
		// the whole backing array of a byte slice, as an (Array Int Int) indexed by absolute position
		a := arg(0)
		if a.S != SSlice {
			e.fail("content() of non-slice")
		}
		if a.Ty != nil {
			if sl, ok := a.Ty.Underlying().(*types.Slice); ok {
				es := sortOf(sl.Elem())
				as := "(Array Int " + es + ")"
				return term(sel(e.heap(memName(es, sl.Elem()), as), app("sarr", a.T)), as, nil)
			}
		}
		return term(sel(e.heap("mem.byte", "(Array Int Int)"), app("sarr", a.T)), "(Array Int Int)", nil)
	case "seen":
		// seen(k): the enclosing range-over-map loop has already delivered key k
		it, ok := e.vars["$iter"]
		if !ok {
			e.fail("seen() outside a range-over-map loop")
		}
		return boolv(sel(sel(e.heap("iter.seen", "(Array Int Bool)"), it.T), arg(0).T))
	case "upd":
		// upd(a, i, v): array a with index i set to v
		a, i, v := arg(0), asTerm(arg(1)), asTerm(arg(2))
		return term(store(a.T, i.T, v.T), a.S, a.Ty)
	case "ord":
		// ord(key): order position of a key (byte slice) under the collection's comparator
		a := arg(0)
		if a.S != SSlice {
			e.fail("ord() of non-slice")
		}
		return intv(app("ordOf", sel(e.heap("mem.byte", "(Array Int Int)"), app("sarr", a.T)), app("soff", a.T), app("slen", a.T)))
	case "has":
		// has(m, k): key k is present in map m
		m, k := arg(0), arg(1)
		r := sel(sel(e.heap("map.dom", "(Array Int Bool)"), m.T), k.T)
		e.notePattern(k.T, r)
		return boolv(r)
	case "be16":
		return intv(e.beValue(arg(0), arg(1).T, 2))
	case "be32":
		return intv(e.beValue(arg(0), arg(1).T, 4))
	case "be64":
		return intv(e.beValue(arg(0), arg(1).T, 8))
	case "u8":
		return intv(wrapFrom(types.Typ[types.Uint8], arg(0).Ty, arg(0).T))
	case "u16":
		return intv(wrapFrom(types.Typ[types.Uint16], arg(0).Ty, arg(0).T))
	case "u32":
		return intv(wrapFrom(types.Typ[types.Uint32], arg(0).Ty, arg(0).T))
	case "u64":
		return intv(wrapFrom(types.Typ[types.Uint64], arg(0).Ty, arg(0).T))
	case "i32":
		return intv(wrapFrom(types.Typ[types.Int32], arg(0).Ty, arg(0).T))
	case "i64":
		return intv(wrapFrom(types.Typ[types.Int64], arg(0).Ty, arg(0).T))
	case "birth":
		return intv(app("birth", arg(0).T))
	case "fresh":
		// allocated during the call under verification (or since the old state)
		ref := arg(0)
		base := ""
		if e.old != nil {
			base = e.old.now
		} else if e.entry != nil {
			base = e.entry.now
		} else {
			e.fail("fresh() without an old state")
		}
		t := ref.T
		if ref.S == SSlice {
			t = app("sarr", ref.T)
		}
		return boolv(app(">=", app("birth", t), base))
	case "allocated":
		ref := arg(0)
		t := ref.T
		if ref.S == SSlice {
			t = app("sarr", ref.T)
		}
		return boolv(or(eq(t, "0"), app("<", app("birth", t), e.nowv())))
	case "strlen":
		return intv(app("strlen", arg(0).T))
	case "min":
		a, b := arg(0), arg(1)
		return intv(ite(app("<=", a.T, b.T), a.T, b.T))
	case "max":
		a, b := arg(0), arg(1)
		return intv(ite(app(">=", a.T, b.T), a.T, b.T))
	case "deref":
		// deref(p): content of the variable a pointer-to-non-struct designates (e.g. *s.coll)
		a := arg(0)
		pt, ok := a.Ty.Underlying().(*types.Pointer)
		if !ok && a.Dyn != nil {
			pt, ok = a.Dyn.Underlying().(*types.Pointer)
		}
		if !ok {
			e.fail("deref of non-pointer")
		}
		es := sortOf(pt.Elem())
		if ov, ok := e.derefOv[a.T]; ok {
			return term(ov, es, pt.Elem())
		}
		return term(sel(e.heap("cell."+es, es), a.T), es, pt.Elem())
	case "closure":
		// closure("Len$1"): the closure value of that function literal made in the function under verification
		// (independent of the name of the local it is assigned to)
		if len(c.Args) != 1 {
			e.fail("closure takes one string")
		}
		sv, ok := c.Args[0].(*EStr)
		if !ok {
			e.fail("closure takes a string literal")
		}
		fr := e.st.frames[0]
		for k, val := range fr.vals {
			if mc, ok := k.(*ssa.MakeClosure); ok && strings.HasSuffix(shortName(mc.Fn.(*ssa.Function)), sv.S) {
				return val
			}
		}
		e.fail("no closure %s has been made on this path", sv.S)
		return Val{}
	case "funcref":
		// funcref("bytes.Compare"): the reference a function constant evaluates to
		if len(c.Args) != 1 {
			e.fail("funcref takes one string")
		}
		sv, ok := c.Args[0].(*EStr)
		if !ok {
			e.fail("funcref takes a string literal")
		}
		return intv(num(int64(e.x.v.funcID(strings.ReplaceAll(sv.S, "github.com/cbehopkins/gkvlite.", "")))))
	case "ref":
		// the reference (address) of a struct-typed expression as Int
		a := arg(0)
		return intv(a.T)
	case "held":
		// held(lockref): the lock is in the ghost lock set
		a := arg(0)
		return boolv(app(">", sel(e.ghostv("locks"), a.T), "0"))
	}
	// prelude functions
	if pf, ok := e.x.v.prelude[c.Fun]; ok {
		var args []string
		for _, hn := range pf.heapArgs {
			args = append(args, e.heap(hn.name, hn.esort))
		}
		for _, gn := range pf.ghostArgs {
			args = append(args, e.ghostv(gn))
		}
		for i := range c.Args {
			a := asTerm(arg(i))
			if a.K != VTerm {
				e.fail("%s: composite argument", c.Fun)
			}
			args = append(args, a.T)
		}
		if len(args) != len(pf.argSorts) {
			e.fail("%s: expected %d arguments, got %d", c.Fun, len(pf.argSorts)-len(pf.heapArgs)-len(pf.ghostArgs), len(c.Args))
		}
		return term(app(pf.smt, args...), pf.resSort, nil)
	}
	e.fail("unknown spec function %s", c.Fun)
	return Val{}
}

// ---- modifies targets ----

type target struct {
	array string // heap array name, or ghost name when ghost
	esort string
	ghost bool
	whole bool
	fresh bool   // only objects allocated during the call
	ref   string // specific location (when !whole && !fresh)
	older string // only locations born before this object (a function value): `older(f) cell.Int`
}

// evalTargets resolves a list of modifies targets in env e (evaluated in the pre state).
func (e *Env) evalTargets(list []string) (ts []target, err error) {
	defer func() {
		if r := recover(); r != nil {
			if se, ok := r.(specErr); ok {
				err = fmt.Errorf("%s", string(se))
				return
			}
			panic(r)
		}
	}()
	for _, s := range list {
		s = strings.TrimSpace(s)
		switch {
		case s == "alloc" || s == "nothing":
			continue
		case strings.HasPrefix(s, "ghost "):
			name := strings.TrimSpace(strings.TrimPrefix(s, "ghost "))
			found := false
			for _, g := range e.x.v.cf.Ghosts {
				if g.Name == name || strings.HasPrefix(g.Name, name+".") {
					ts = append(ts, target{array: g.Name, ghost: true, whole: true})
					found = true
				}
			}
			if !found {
				e.fail("unknown ghost %q in modifies", name)
			}
		case strings.HasPrefix(s, "older("):
			// older(f) A: of array A only the locations that already existed when the object f (a function
			// value) was made -- what a closure can have captured
			close := strings.Index(s, ")")
			if close < 0 {
				e.fail("bad modifies target %q", s)
			}
			ex, perr := parseExpr(s[len("older("):close])
			if perr != nil {
				e.fail("%v", perr)
			}
			fv := asTerm(e.eval(ex))
			name := strings.TrimSpace(s[close+1:])
			arr, es := e.x.arrayByName(name)
			if arr == "" {
				e.fail("unknown heap array %q in modifies", name)
			}
			ts = append(ts, target{array: arr, esort: es, older: fv.T})
		case strings.HasPrefix(s, "new "):
			name := strings.TrimSpace(strings.TrimPrefix(s, "new "))
			arr, es := e.x.arrayByName(name)
			if arr == "" {
				e.fail("unknown heap array %q in modifies", name)
			}
			ts = append(ts, target{array: arr, esort: es, fresh: true})
		case strings.HasPrefix(s, "mapcontent(") && strings.HasSuffix(s, ")"):
			// the entries of one map object
			inner := s[len("mapcontent(") : len(s)-1]
			ex, perr := parseExpr(inner)
			if perr != nil {
				e.fail("%v", perr)
			}
			v := e.eval(ex)
			mt, ok := v.Ty.Underlying().(*types.Map)
			if !ok {
				e.fail("mapcontent() of non-map %s", inner)
			}
			ts = append(ts, target{array: mapName(mt.Elem()), esort: "(Array Int " + sortOf(mt.Elem()) + ")", ref: v.T})
			ts = append(ts, target{array: "map.dom", esort: "(Array Int Bool)", ref: v.T})
		case strings.HasPrefix(s, "elems(") && strings.HasSuffix(s, ")"):
			// the elements of the array a pointer-to-array designates (nil pointer: nothing)
			inner := s[len("elems(") : len(s)-1]
			ex, perr := parseExpr(inner)
			if perr != nil {
				e.fail("%v", perr)
			}
			v := e.eval(ex)
			pt, ok := v.Ty.Underlying().(*types.Pointer)
			if !ok {
				e.fail("elems() of non-pointer %s", inner)
			}
			a, ok := pt.Elem().Underlying().(*types.Array)
			if !ok {
				e.fail("elems() of non-array pointer %s", inner)
			}
			ts = append(ts, target{array: arrMemName(pt.Elem()), esort: "(Array Int " + sortOf(a.Elem()) + ")", ref: v.T})
		case strings.HasPrefix(s, "content(") && strings.HasSuffix(s, ")"):
			inner := s[len("content(") : len(s)-1]
			ex, perr := parseExpr(inner)
			if perr != nil {
				e.fail("%v", perr)
			}
			v := e.eval(ex)
			if v.S != SSlice {
				e.fail("content() of non-slice %s", inner)
			}
			es := SInt
			var elem types.Type = types.Typ[types.Uint8]
			if v.Ty != nil {
				if sl, ok := v.Ty.Underlying().(*types.Slice); ok {
					elem = sl.Elem()
					es = sortOf(elem)
				}
			}
			ts = append(ts, target{array: memName(es, elem), esort: "(Array Int " + es + ")", ref: app("sarr", v.T)})
		default:
			// T.f (whole array) or x.f (location)
			if arr, es := e.x.arrayByName(s); arr != "" {
				if _, isVar := e.vars[strings.SplitN(s, ".", 2)[0]]; !isVar {
					ts = append(ts, target{array: arr, esort: es, whole: true})
					continue
				}
			}
			ex, perr := parseExpr(s)
			if perr != nil {
				e.fail("%v", perr)
			}
			sl, ok := ex.(*ESel)
			if !ok {
				e.fail("bad modifies target %q", s)
			}
			base := e.eval(sl.X)
			stt, tn, ok := structOf(base.Ty)
			if !ok {
				e.fail("modifies target %q: base is not a struct pointer", s)
			}
			found := false
			for i := 0; i < stt.NumFields(); i++ {
				f := stt.Field(i)
				if f.Name() != sl.Name {
					continue
				}
				found = true
				if isStruct(f.Type()) {
					// all fields of the embedded struct
					lf := e.x.locFnFor(tn, f.Name(), f.Type())
					ref := app(quote(lf.name), base.T)
					est := f.Type().Underlying().(*types.Struct)
					for j := 0; j < est.NumFields(); j++ {
						ef := est.Field(j)
						if isStruct(ef.Type()) || isArray(ef.Type()) {
							continue
						}
						ts = append(ts, target{array: typeName(f.Type()) + "." + ef.Name(), esort: sortOf(ef.Type()), ref: ref})
					}
				} else if isArray(f.Type()) {
					lf := e.x.locFnFor(tn, f.Name(), f.Type())
					ref := app(quote(lf.name), base.T)
					a := f.Type().Underlying().(*types.Array)
					ts = append(ts, target{array: arrMemName(f.Type()), esort: "(Array Int " + sortOf(a.Elem()) + ")", ref: ref})
				} else {
					ts = append(ts, target{array: tn + "." + f.Name(), esort: sortOf(f.Type()), ref: base.T})
				}
			}
			if !found {
				e.fail("modifies target %q: no such field", s)
			}
		}
	}
	return ts, nil
}

// arrayByName resolves "T.f" to a heap array of the package's struct type T, or "G.x" / "mem.byte".
func (x *Exec) arrayByName(s string) (string, string) {
	if strings.HasPrefix(s, "mem.") {
		switch s {
		case "mem.byte", "mem.Int", "mem.ptr":
			return s, "(Array Int Int)"
		case "mem.Slice":
			return s, "(Array Int Slice)"
		}
	}
	parts := strings.SplitN(s, ".", 2)
	if len(parts) != 2 {
		return "", ""
	}
	if parts[0] == "cell" {
		return s, parts[1]
	}
	if parts[0] == "G" {
		if obj := x.v.pkg.Pkg.Scope().Lookup(parts[1]); obj != nil {
			if v, ok := obj.(*types.Var); ok {
				return s, sortOf(v.Type())
			}
		}
		return "", ""
	}
	if parts[0] == "map" {
		if parts[1] == "dom" {
			return s, "(Array Int Bool)"
		}
		if parts[1] == "ptr" {
			return s, "(Array Int Int)"
		}
		return s, "(Array Int " + parts[1] + ")"
	}
	obj := x.v.pkg.Pkg.Scope().Lookup(parts[0])
	if obj == nil {
		return "", ""
	}
	tn, ok := obj.(*types.TypeName)
	if !ok {
		return "", ""
	}
	st, ok := tn.Type().Underlying().(*types.Struct)
	if !ok {
		return "", ""
	}
	for i := 0; i < st.NumFields(); i++ {
		f := st.Field(i)
		if f.Name() == parts[1] {
			if isStruct(f.Type()) {
				return "", ""
			}
			if isArray(f.Type()) {
				a := f.Type().Underlying().(*types.Array)
				return arrMemName(f.Type()), "(Array Int " + sortOf(a.Elem()) + ")"
			}
			return s, sortOf(f.Type())
		}
	}
	return "", ""
}
