package main

import (
	"encoding/json"
	"flag"
	"fmt"
	"os"
	"path/filepath"
	"runtime"
	"sort"
	"strings"
	"sync"
	"time"
)

func usage() {
	fmt.Fprintln(os.Stderr, `usage:
  govc check <property|all> [--tier quick|thorough] [--repo /repo] [--verif /verif]
  govc run   [--funcs f1,f2] [--props C14] [-v]      (development: verify and print a table)
  govc dump  <func>                                   (print SSA)
  govc script <obligation-name> [--funcs f]           (print the SMT script of an obligation)
  govc replay <file>`)
	os.Exit(2)
}

func main() {
	if len(os.Args) < 2 {
		usage()
	}
	switch os.Args[1] {
	case "dump":
		cmdDump(os.Args[2:])
	case "run":
		cmdRun(os.Args[2:])
	case "script":
		cmdScript(os.Args[2:])
	case "check":
		os.Exit(cmdCheck(os.Args[2:]))
	case "replay":
		os.Exit(cmdReplay(os.Args[2:]))
	case "ledger":
		os.Exit(cmdLedger(os.Args[2:]))
	default:
		usage()
	}
}

func contractPath(repo string) string { return filepath.Join(repo, "contracts_verif.go") }

func cmdDump(args []string) {
	v, err := loadVerifier("/repo", contractPath("/repo"))
	if err != nil {
		fmt.Fprintln(os.Stderr, err)
		os.Exit(2)
	}
	if len(args) == 0 {
		var names []string
		for n := range v.funcs {
			names = append(names, n)
		}
		sort.Strings(names)
		for _, n := range names {
			fmt.Println(n)
		}
		return
	}
	for _, n := range args {
		fn := v.funcs[n]
		if fn == nil {
			fmt.Println("no function", n)
			continue
		}
		fn.WriteTo(os.Stdout)
	}
}

// selectFuncs returns the functions with a (non-inline-only) contract matching the filters.
func selectFuncs(v *Verifier, funcs, props []string) []string {
	var out []string
	want := map[string]bool{}
	for _, f := range funcs {
		want[f] = true
	}
	for name, c := range v.cf.Funcs {
		if c.Trusted || (c.Inline && len(want) == 0) {
			continue // trusted bodies are not verified; inlined bodies are verified in their callers' contexts
		}
		if len(want) > 0 {
			if want[name] {
				out = append(out, name)
			}
			continue
		}
		if len(props) == 0 {
			out = append(out, name)
			continue
		}
		if contractMentions(c, props) {
			out = append(out, name)
		}
	}
	sort.Strings(out)
	return out
}

func contractMentions(c *Contract, props []string) bool {
	has := func(tags []string) bool {
		for _, t := range tags {
			for _, p := range props {
				if t == p {
					return true
				}
			}
		}
		return false
	}
	if has(c.Props) {
		return true
	}
	for _, p := range props {
		if p == "C07" && !c.NoSafety {
			return true // every function under contract carries no-panic / termination obligations, which belong to C07
		}
	}
	for _, cl := range c.Requires {
		if has(cl.Tags) {
			return true
		}
	}
	for _, cl := range c.Ensures {
		if has(cl.Tags) {
			return true
		}
	}
	for _, l := range c.Loops {
		for _, cl := range l.Invs {
			if has(cl.Tags) {
				return true
			}
		}
	}
	return false
}

func verifyMany(v *Verifier, names []string) []*FuncResult {
	res := make([]*FuncResult, len(names))
	var wg sync.WaitGroup
	sem := make(chan struct{}, runtime.NumCPU())
	for i, n := range names {
		wg.Add(1)
		go func(i int, n string) {
			defer wg.Done()
			sem <- struct{}{}
			defer func() { <-sem }()
			defer func() {
				if r := recover(); r != nil {
					buf := make([]byte, 4096)
					buf = buf[:runtime.Stack(buf, false)]
					res[i] = &FuncResult{Name: n, Errors: []string{fmt.Sprintf("internal error: %v\n%s", r, buf)}}
				}
			}()
			res[i] = v.verifyFunc(n)
		}(i, n)
	}
	wg.Wait()
	return res
}

func cmdRun(args []string) {
	fs := flag.NewFlagSet("run", flag.ExitOnError)
	funcs := fs.String("funcs", "", "comma-separated function names")
	props := fs.String("props", "", "comma-separated property ids")
	verbose := fs.Bool("v", false, "list every obligation")
	repo := fs.String("repo", "/repo", "repository")
	timeout := fs.Int("timeout", 10, "solver timeout (s)")
	keep := fs.Bool("keep", false, "keep scripts")
	contracts := fs.String("contracts", "", "contract file (default <repo>/contracts_verif.go)")
	fs.Parse(args)
	tstart := time.Now()
	if *contracts == "" {
		*contracts = contractPath(*repo)
	}
	v, err := loadVerifier(*repo, *contracts)
	if err != nil {
		fmt.Fprintln(os.Stderr, "load:", err)
		os.Exit(2)
	}
	names := selectFuncs(v, splitList(*funcs), splitList(*props))
	t0 := time.Now()
	fmt.Fprintf(os.Stderr, "load %.1fs\n", time.Since(tstart).Seconds())
	results := verifyMany(v, names)
	fmt.Fprintf(os.Stderr, "vcgen %.1fs feasibility-queries=%d\n", time.Since(t0).Seconds(), v.feasQueries)
	var all []*Obligation
	for _, r := range results {
		all = append(all, r.Obls...)
	}
	work := filepath.Join("/verif/.work", fmt.Sprintf("run%d", os.Getpid()))
	nw := runtime.NumCPU()
	if e := os.Getenv("GOVC_WORKERS"); e != "" {
		fmt.Sscan(e, &nw)
	}
	stats, _ := solveResults(results, nil, work, *timeout, nw, false)
	if !*keep {
		defer os.RemoveAll(work)
	}
	nproved := 0
	for _, r := range results {
		agg := aggregate(r.Obls)
		bad := 0
		for _, a := range agg {
			if a.Status == "proved" {
				nproved++
			} else {
				bad++
			}
		}
		fmt.Printf("%-50s obligations=%-4d distinct=%-4d notproved=%-3d paths=%d errors=%d hash=%s\n", r.Name, len(r.Obls), len(agg), bad, r.Paths, len(r.Errors), r.SSAHash)
		for _, e := range r.Errors {
			fmt.Printf("    ERROR %s\n", e)
		}
		for _, a := range agg {
			if *verbose || a.Status != "proved" {
				fmt.Printf("    %-9s %-60s [%s] %s %dms  %s\n", a.Status, a.Name, strings.Join(a.Tags, ","), a.Solver, a.Ms, trunc(a.Src, 90))
				if a.Status != "proved" {
					fmt.Printf("              path: %s  %s\n", a.Path, trunc(strings.ReplaceAll(a.Output, "\n", " "), 200))
				}
			}
		}
	}
	for fn, ws := range v.unsupported {
		fmt.Printf("outside subset: %s: %s\n", fn, strings.Join(ws, "; "))
	}
	for fn, ws := range v.missing {
		fmt.Printf("missing contracts: %s: %s\n", fn, strings.Join(ws, "; "))
	}
	fmt.Printf("functions=%d obligations(distinct proved)=%d queries=%d sessions=%d solver_ms=%d wall=%.1fs backends=%v\n", len(results), nproved, stats.queries, stats.sessions, stats.totalMs, time.Since(t0).Seconds(), stats.byBackend)
}

func trunc(s string, n int) string {
	if len(s) > n {
		return s[:n] + "..."
	}
	return s
}

func splitList(s string) []string {
	var out []string
	for _, p := range strings.Split(s, ",") {
		p = strings.TrimSpace(p)
		if p != "" {
			out = append(out, p)
		}
	}
	return out
}

// AggObl is an obligation aggregated over the paths on which it arises.
type AggObl struct {
	Name    string   `json:"name"`
	Func    string   `json:"func"`
	Kind    string   `json:"kind"`
	Tags    []string `json:"tags"`
	Src     string   `json:"clause"`
	Pos     string   `json:"pos,omitempty"`
	Status  string   `json:"status"`
	Solver  string   `json:"solver"`
	Ms      int64    `json:"ms"`
	Paths   int      `json:"paths"`
	Path    string   `json:"failing_path,omitempty"`
	Output  string   `json:"output,omitempty"`
	failing *Obligation
	sample  *Obligation // a non-trivial instance (the one with the most path facts), for the cross-solver check
}

// aggregate merges per-path instances of the same named obligation: proved iff proved on all paths.
func aggregate(obls []*Obligation) []*AggObl {
	m := map[string]*AggObl{}
	var order []string
	rank := map[string]int{"proved": 0, "undecided": 1, "unknown": 2, "error": 3, "vacuous": 4, "failed": 5}
	for _, o := range obls {
		a := m[o.Name]
		if a == nil {
			a = &AggObl{Name: o.Name, Func: o.Func, Kind: o.Kind, Tags: o.Tags, Src: o.Src, Pos: o.Pos, Status: "proved"}
			m[o.Name] = a
			order = append(order, o.Name)
		}
		a.Paths++
		a.Ms += o.Ms
		if o.Goal != "true" && (a.sample == nil || nodeN(o.pre) > nodeN(a.sample.pre)) {
			a.sample = o
		}
		if o.Solver != "" && (a.Solver == "" || a.Solver == "syntactic") {
			a.Solver = o.Solver
		}
		if o.Kind == "cover" && strings.HasSuffix(o.Name, "#cover.return") {
			// reachability guard: satisfied as soon as one return path is satisfiable
			if a.Paths == 1 || (a.Status != "proved" && rank[o.Status] < rank[a.Status]) {
				a.Status, a.Path, a.Output, a.Solver, a.failing = o.Status, o.Path, o.Output, o.Solver, o
			}
			continue
		}
		if rank[o.Status] > rank[a.Status] {
			a.Status = o.Status
			a.Path = o.Path
			a.Output = o.Output
			a.Solver = o.Solver
			a.failing = o
		}
	}
	var out []*AggObl
	for _, n := range order {
		out = append(out, m[n])
	}
	return out
}

func cmdScript(args []string) {
	fs := flag.NewFlagSet("script", flag.ExitOnError)
	funcs := fs.String("funcs", "", "function")
	nth := fs.Int("n", 0, "instance")
	all := fs.String("all", "", "write every instance to this directory")
	fs.Parse(args)
	if fs.NArg() < 1 {
		usage()
	}
	v, err := loadVerifier("/repo", contractPath("/repo"))
	if err != nil {
		fmt.Fprintln(os.Stderr, err)
		os.Exit(2)
	}
	name := fs.Arg(0)
	fn := *funcs
	if fn == "" {
		fn = strings.SplitN(name, "#", 2)[0]
	}
	r := v.verifyFunc(fn)
	k := 0
	if *all != "" {
		os.MkdirAll(*all, 0755)
		for _, o := range r.Obls {
			if o.Name == name {
				os.WriteFile(filepath.Join(*all, fmt.Sprintf("%d.smt2", k)), []byte("; path: "+o.Path+"\n"+o.script()), 0644)
				k++
			}
		}
		fmt.Println(k, "instances written")
		return
	}
	for _, o := range r.Obls {
		if o.Name == name {
			if k == *nth {
				fmt.Print(o.script())
				return
			}
			k++
		}
	}
	fmt.Fprintln(os.Stderr, "no such obligation; have:")
	for _, o := range r.Obls {
		fmt.Fprintln(os.Stderr, "  ", o.Name)
	}
}

func writeJSON(path string, v interface{}) error {
	b, err := json.MarshalIndent(v, "", " ")
	if err != nil {
		return err
	}
	return os.WriteFile(path, append(b, '\n'), 0644)
}
