; Spec vocabulary shared by all contracts (DESIGN.md section 4).
; Lines starting with ";@spec" register a function for use in contract expressions.
; Everything here is written from the file-format description in the property
; statements (C14 anchors), not from the code.

; ---- shifted block copy between byte arrays: dst with src[so .. so+n) copied to dst[do .. do+n) ----
(declare-fun shiftcopy ((Array Int Int) (Array Int Int) Int Int Int) (Array Int Int))
(assert (forall ((d (Array Int Int)) (s (Array Int Int)) (so Int) (do Int) (n Int) (j Int))
  (! (= (select (shiftcopy d s so do n) j) (ite (and (<= do j) (< j (+ do n))) (select s (+ so (- j do))) (select d j)))
     :pattern ((select (shiftcopy d s so do n) j)))))
; c[do .. do+n) agrees with f[so .. so+n)  (absolute indices; trigger on plain reads of c)
(define-fun agree ((c (Array Int Int)) (f (Array Int Int)) (so Int) (do Int) (n Int)) Bool
  (forall ((j Int)) (! (=> (and (<= do j) (< j (+ do n))) (= (select c j) (select f (+ so (- j do))))) :pattern ((select c j)))))
;@spec agree smt=agree args=(Array_Int_Int),(Array_Int_Int),Int,Int,Int res=Bool
;@spec shiftcopy smt=shiftcopy args=(Array_Int_Int),(Array_Int_Int),Int,Int,Int res=(Array_Int_Int)

; ---- big-endian fields of a byte array (file content or buffer content) ----
(define-fun fbe32 ((f (Array Int Int)) (o Int)) Int
  (+ (* 16777216 (select f o)) (* 65536 (select f (+ o 1))) (* 256 (select f (+ o 2))) (select f (+ o 3))))
(define-fun fbe64 ((f (Array Int Int)) (o Int)) Int
  (+ (* 72057594037927936 (select f o)) (* 281474976710656 (select f (+ o 1))) (* 1099511627776 (select f (+ o 2))) (* 4294967296 (select f (+ o 3)))
     (* 16777216 (select f (+ o 4))) (* 65536 (select f (+ o 5))) (* 256 (select f (+ o 6))) (select f (+ o 7))))
; two's complement reading of an unsigned 64-bit value
(define-fun s64 ((u Int)) Int (ite (>= u 9223372036854775808) (- u 18446744073709551616) u))
;@spec fbe32 smt=fbe32 args=(Array_Int_Int),Int res=Int
;@spec fbe64 smt=fbe64 args=(Array_Int_Int),Int res=Int
;@spec s64 smt=s64 args=Int res=Int

; ---- root record framing (version 4) ----
; "0g1t2r" = 48 103 49 116 50 114     "3e4a5p" = 51 101 52 97 53 112
(define-fun magicBegAt ((f (Array Int Int)) (o Int)) Bool
  (and (= (select f o) 48) (= (select f (+ o 1)) 103) (= (select f (+ o 2)) 49) (= (select f (+ o 3)) 116) (= (select f (+ o 4)) 50) (= (select f (+ o 5)) 114)
       (= (select f (+ o 6)) 48) (= (select f (+ o 7)) 103) (= (select f (+ o 8)) 49) (= (select f (+ o 9)) 116) (= (select f (+ o 10)) 50) (= (select f (+ o 11)) 114)))
; p is the END offset of the record: the last 12 bytes are the doubled end marker
(define-fun magicEndAt ((f (Array Int Int)) (p Int)) Bool
  (and (= (select f (- p 12)) 51) (= (select f (- p 11)) 101) (= (select f (- p 10)) 52) (= (select f (- p 9)) 97) (= (select f (- p 8)) 53) (= (select f (- p 7)) 112)
       (= (select f (- p 6)) 51) (= (select f (- p 5)) 101) (= (select f (- p 4)) 52) (= (select f (- p 3)) 97) (= (select f (- p 2)) 53) (= (select f (- p 1)) 112)))
;@spec magicBegAt smt=magicBegAt args=(Array_Int_Int),Int res=Bool
;@spec magicEndAt smt=magicEndAt args=(Array_Int_Int),Int res=Bool

; encoding/json accepts bytes [lo, lo+n) of f as a map name -> {"o":..,"l":..} (trusted, A8)
(declare-fun jsonOKAt ((Array Int Int) Int Int) Bool)
;@spec jsonOKAt smt=jsonOKAt args=(Array_Int_Int),Int,Int res=Bool

; a root record starting at o with recorded length l ends exactly at p and is well framed
(define-fun rootFramed ((f (Array Int Int)) (p Int) (o Int) (l Int)) Bool
  (and (>= o 0) (< o (- p 44)) (= l (mod (- p o) 4294967296))
       (magicBegAt f o) (= (fbe32 f (+ o 12)) 4) (= (fbe32 f (+ o 16)) l)
       (jsonOKAt f (+ o 20) (- (- p o) 44))))
;@spec rootFramed smt=rootFramed args=(Array_Int_Int),Int,Int,Int res=Bool

; "a complete, self-consistent root record ends at p"
(define-fun validRootEndingAt ((f (Array Int Int)) (p Int)) Bool
  (and (> p 44) (magicEndAt f p)
       (rootFramed f p (s64 (fbe64 f (- p 24))) (fbe32 f (- p 16)))))
;@spec validRootEndingAt smt=validRootEndingAt args=(Array_Int_Int),Int res=Bool

; ---- persisted locations ----
(define-fun emptyLoc ((O (Array Int Int)) (L (Array Int Int)) (p Int)) Bool
  (or (= p 0) (and (= (select O p) 0) (= (select L p) 0))))
;@spec emptyLoc smt=emptyLoc args=Int res=Bool heap=ploc.Offset,ploc.Length
; offset / length of a possibly nil location (nil reads as {0,0})
(define-fun locOff ((O (Array Int Int)) (p Int)) Int (ite (= p 0) 0 (select O p)))
(define-fun locLen ((L (Array Int Int)) (p Int)) Int (ite (= p 0) 0 (select L p)))
;@spec locOff smt=locOff args=Int res=Int heap=ploc.Offset
;@spec locLen smt=locLen args=Int res=Int heap=ploc.Length
(define-fun u64of ((x Int)) Int (ite (>= x 0) x (+ x 18446744073709551616)))
;@spec u64of smt=u64of args=Int res=Int

(define-fun plocRecAt ((f (Array Int Int)) (o Int) (off Int) (len Int)) Bool
  (and (= (fbe64 f o) (u64of off)) (= (fbe32 f (+ o 8)) len)))
;@spec plocRecAt smt=plocRecAt args=(Array_Int_Int),Int,Int,Int res=Bool

; ---- node record (52 bytes) at offset o of file content f ----
; 3 x (i64 offset, u32 length) for item, left, right (all-zero for absent), u64 numNodes, u64 numBytes
(define-fun nodeRecAt ((f (Array Int Int)) (o Int) (io Int) (il Int) (lo Int) (ll Int) (ro Int) (rl Int) (nn Int) (nb Int)) Bool
  (and (= (fbe64 f o) (u64of io)) (= (fbe32 f (+ o 8)) il)
       (= (fbe64 f (+ o 12)) (u64of lo)) (= (fbe32 f (+ o 20)) ll)
       (= (fbe64 f (+ o 24)) (u64of ro)) (= (fbe32 f (+ o 32)) rl)
       (= (fbe64 f (+ o 36)) nn) (= (fbe64 f (+ o 44)) nb)))
;@spec nodeRecAt smt=nodeRecAt args=(Array_Int_Int),Int,Int,Int,Int,Int,Int,Int,Int,Int res=Bool

; bytes of f below position n are those of g
(define-fun samePrefix ((f (Array Int Int)) (g (Array Int Int)) (n Int)) Bool
  (forall ((i Int)) (! (=> (< i n) (= (select f i) (select g i))) :pattern ((select f i)))))
;@spec samePrefix smt=samePrefix args=(Array_Int_Int),(Array_Int_Int),Int res=Bool

; ---- value bytes (C19) ----
; isValueByte f i: byte i of file content f belongs to the value part of some item record.
(declare-fun isValueByte ((Array Int Int) Int) Bool)
; number of value bytes in [off, off+n); vwit names one when there is any (Skolem witness)
(declare-fun valueOverlap ((Array Int Int) Int Int) Int)
(declare-fun vwit ((Array Int Int) Int Int) Int)
(assert (forall ((f (Array Int Int)) (off Int) (n Int))
  (! (and (>= (valueOverlap f off n) 0)
          (=> (> (valueOverlap f off n) 0)
              (and (<= off (vwit f off n)) (< (vwit f off n) (+ off n)) (isValueByte f (vwit f off n)))))
     :pattern ((valueOverlap f off n)))))
;@spec valueOverlap smt=valueOverlap args=(Array_Int_Int),Int,Int res=Int
;@spec isValueByte smt=isValueByte args=(Array_Int_Int),Int res=Bool
; an item record starts at o: its header and key bytes are not value bytes (records do not overlap)
(define-fun itemHeadAt ((f (Array Int Int)) (o Int)) Bool
  (forall ((i Int)) (! (=> (and (<= o i) (< i (+ o 16 (fbe32 f (+ o 4))))) (not (isValueByte f i))) :pattern ((isValueByte f i)))))
;@spec itemHeadAt smt=itemHeadAt args=(Array_Int_Int),Int res=Bool
; no value byte in [lo, hi)
(define-fun noValueIn ((f (Array Int Int)) (lo Int) (hi Int)) Bool
  (forall ((i Int)) (! (=> (and (<= lo i) (< i hi)) (not (isValueByte f i))) :pattern ((isValueByte f i)))))
;@spec noValueIn smt=noValueIn args=(Array_Int_Int),Int,Int res=Bool

; on-disk value length chosen by an installed ItemValLength callback (a pure function of the item, A9)
(declare-fun cbvlen (Int) Int)
;@spec cbvlen smt=cbvlen args=Int res=Int

; ---- item record at offset o of file content f ----
; u32 total length, u32 key length, u32 value length, i32 priority, key bytes, value bytes
(define-fun itemHdrAt ((f (Array Int Int)) (o Int) (total Int) (klen Int) (vlen Int) (pri Int)) Bool
  (and (= (fbe32 f o) total) (= (fbe32 f (+ o 4)) klen) (= (fbe32 f (+ o 8)) vlen)
       (= (fbe32 f (+ o 12)) (ite (>= pri 0) pri (+ pri 4294967296)))))
;@spec itemHdrAt smt=itemHdrAt args=(Array_Int_Int),Int,Int,Int,Int,Int res=Bool

; on-disk value length of item i in store s: the ItemValLength callback's answer if installed, else len(i.Val)
(define-fun vlenOf ((CB (Array Int Int)) (V (Array Int Slice)) (s Int) (i Int)) Int
  (ite (= (select CB (|Store.callbacks@| s)) 0) (slen (select V i)) (cbvlen i)))
;@spec vlenOf smt=vlenOf args=Int,Int res=Int heap=StoreCallbacks.ItemValLength,Item.Val:Slice

; all three reference-count callbacks are installed in store s (C15 premise)
(define-fun refcb ((A (Array Int Int)) (B (Array Int Int)) (C (Array Int Int)) (s Int)) Bool
  (and (not (= (select A (|Store.callbacks@| s)) 0)) (not (= (select B (|Store.callbacks@| s)) 0)) (not (= (select C (|Store.callbacks@| s)) 0))))
;@spec refcb smt=refcb args=Int res=Bool heap=StoreCallbacks.ItemAlloc,StoreCallbacks.ItemAddRef,StoreCallbacks.ItemDecRef
(define-fun s32 ((u Int)) Int (ite (>= u 2147483648) (- u 4294967296) u))
;@spec s32 smt=s32 args=Int res=Int

; the empty lock set (ghost `locks` maps a mutex reference to the number of holds by the current call)
(define-fun emptyLocks () (Array Int Int) ((as const (Array Int Int)) 0))
;@spec emptyLocks smt=emptyLocks args= res=(Array_Int_Int)

; a nodeLoc denotes the empty tree: nil, or neither a location nor a cached node
(define-fun emptyNL ((LOC (Array Int Int)) (NODE (Array Int Int)) (O (Array Int Int)) (L (Array Int Int)) (x Int)) Bool
  (or (= x 0) (and (emptyLoc O L (select LOC x)) (= (select NODE x) 0))))
;@spec emptyNL smt=emptyNL args=Int res=Bool heap=nodeLoc.loc,nodeLoc.node,ploc.Offset,ploc.Length
; height-like measure making recursion over trees well-founded (trees are acyclic: relied upon)
(declare-fun rank (Int) Int)
;@spec rank smt=rank args=Int res=Int
; length of the chain of superseding versions hanging off a root version (well-founded: relied upon)
(declare-fun chainlen (Int) Int)
;@spec chainlen smt=chainlen args=Int res=Int
; x is a stand-alone nodeLoc (from mkNodeLoc or a package sentinel), not the left/right slot embedded in a node
(define-fun standaloneNL ((x Int)) Bool
  (and (not (= (|node.left@| (|node.left@^-1| x)) x)) (not (= (|node.right@| (|node.right@^-1| x)) x))))
;@spec standaloneNL smt=standaloneNL args=Int res=Bool

; ---- sorted string slices (collection names) ----
(declare-fun strle (Int Int) Bool)   ; the order sort.Strings uses, on string ids
(assert (forall ((a Int) (b Int)) (! (or (strle a b) (strle b a)) :pattern ((strle a b)))))
(assert (forall ((a Int) (b Int) (c Int)) (! (=> (and (strle a b) (strle b c)) (strle a c)) :pattern ((strle a b) (strle b c)))))
(define-fun sortedStrs ((c (Array Int Int)) (off Int) (n Int)) Bool
  (forall ((i Int) (j Int)) (! (=> (and (<= off i) (< i j) (< j (+ off n))) (strle (select c i) (select c j))) :pattern ((select c i) (select c j)))))
;@spec sortedStrs smt=sortedStrs args=(Array_Int_Int),Int,Int res=Bool
; every element of c[off..off+n) satisfies membership in dom
(define-fun allIn ((c (Array Int Int)) (off Int) (n Int) (dom (Array Int Bool))) Bool
  (forall ((i Int)) (! (=> (and (<= off i) (< i (+ off n))) (select dom (select c i))) :pattern ((select c i)))))
;@spec allIn smt=allIn args=(Array_Int_Int),Int,Int,(Array_Int_Bool) res=Bool
; number of occurrences of v in c[off..off+n) (multiset view), with a witness index when positive
(declare-fun occurs ((Array Int Int) Int Int Int) Int)
(declare-fun occIdx ((Array Int Int) Int Int Int) Int)
(assert (forall ((c (Array Int Int)) (off Int) (n Int) (v Int))
  (! (and (>= (occurs c off n v) 0)
          (=> (> (occurs c off n v) 0) (and (<= off (occIdx c off n v)) (< (occIdx c off n v) (+ off n)) (= (select c (occIdx c off n v)) v))))
     :pattern ((occurs c off n v)))))
;@spec occurs smt=occurs args=(Array_Int_Int),Int,Int,Int res=Int
; the permutation realised by sort.Strings on c[off..off+n): new[i] = old[sortperm(old,off,n,i)], and its inverse
(declare-fun sortperm ((Array Int Int) Int Int Int) Int)
(declare-fun sortpermInv ((Array Int Int) Int Int Int) Int)
;@spec sortperm smt=sortperm args=(Array_Int_Int),Int,Int,Int res=Int
;@spec sortpermInv smt=sortpermInv args=(Array_Int_Int),Int,Int,Int res=Int
; size reported by an os.FileInfo value
(declare-fun statsize (Int) Int)
;@spec statsize smt=statsize args=Int res=Int

; ===========================================================================
; Abstract trees (DESIGN section 4). An item is an abstract id; ikey/ipri/ibytes/ival give its
; order position under the collection's comparator, priority, key+value byte count and value id.
(declare-datatypes ((Tree 0)) (((Leaf) (Node (tl Tree) (ti Int) (tr Tree)))))
(declare-fun ikey (Int) Int)
(declare-fun ipri (Int) Int)
(declare-fun ibytes (Int) Int)
; recursive spec functions are uninterpreted with pattern-guarded one-level unfolding
(declare-fun mem (Int Tree) Bool)     ; key position k occurs in the tree
(declare-fun itemAt (Int Tree) Int)   ; the item stored under key position k
(declare-fun cnt (Tree) Int)
(declare-fun sumb (Tree) Int)
(declare-fun bst (Tree) Bool)
(declare-fun hp (Tree) Bool)          ; no child outranks its parent
(declare-fun rootPri (Tree) Int)
(assert (forall ((k Int)) (! (not (mem k Leaf)) :pattern ((mem k Leaf)))))
(assert (forall ((k Int) (l Tree) (i Int) (r Tree))
  (! (= (mem k (Node l i r)) (or (= k (ikey i)) (mem k l) (mem k r))) :pattern ((mem k (Node l i r))))))
; upward facts: membership in a subtree is membership in the tree
(assert (forall ((k Int) (l Tree) (i Int) (r Tree)) (! (=> (mem k l) (mem k (Node l i r))) :pattern ((mem k l) (Node l i r)))))
(assert (forall ((k Int) (l Tree) (i Int) (r Tree)) (! (=> (mem k r) (mem k (Node l i r))) :pattern ((mem k r) (Node l i r)))))
(assert (forall ((l Tree) (i Int) (r Tree)) (! (mem (ikey i) (Node l i r)) :pattern ((Node l i r)))))
(assert (forall ((k Int) (l Tree) (i Int) (r Tree))
  (! (= (itemAt k (Node l i r)) (ite (= k (ikey i)) i (ite (< k (ikey i)) (itemAt k l) (itemAt k r)))) :pattern ((itemAt k (Node l i r))))))
(assert (= (cnt Leaf) 0))
(assert (= (sumb Leaf) 0))
(assert (forall ((l Tree) (i Int) (r Tree)) (! (= (cnt (Node l i r)) (+ (cnt l) 1 (cnt r))) :pattern ((Node l i r)))))
(assert (forall ((l Tree) (i Int) (r Tree)) (! (= (sumb (Node l i r)) (+ (sumb l) (ibytes i) (sumb r))) :pattern ((Node l i r)))))
(assert (forall ((t Tree)) (! (>= (cnt t) 0) :pattern ((cnt t)))))
(assert (forall ((t Tree)) (! (>= (sumb t) 0) :pattern ((sumb t)))))
(assert (forall ((i Int)) (! (>= (ibytes i) 0) :pattern ((ibytes i)))))
(assert (bst Leaf))
(assert (forall ((l Tree) (i Int) (r Tree))
  (! (= (bst (Node l i r))
        (and (bst l) (bst r)
             (forall ((k Int)) (! (=> (mem k l) (< k (ikey i))) :pattern ((mem k l))))
             (forall ((k Int)) (! (=> (mem k r) (> k (ikey i))) :pattern ((mem k r))))))
     :pattern ((bst (Node l i r))))))
(assert (= (rootPri Leaf) (- 1)))
(assert (forall ((l Tree) (i Int) (r Tree)) (! (= (rootPri (Node l i r)) (ipri i)) :pattern ((Node l i r)))))
(assert (hp Leaf))
(assert (forall ((l Tree) (i Int) (r Tree))
  (! (= (hp (Node l i r)) (and (hp l) (hp r) (<= (rootPri l) (ipri i)) (<= (rootPri r) (ipri i)))) :pattern ((hp (Node l i r))))))
; function values: codeOf(f) identifies the code a function value runs (function constants are their own
; code; a closure value gets codeOf(ref) = id of its function when it is made); walkDir classifies the
; three choice functions handed to Store.walk (0: always left, 1: always right, other: arbitrary)
(declare-fun codeOf (Int) Int)
(assert (forall ((f Int)) (! (=> (and (>= f 900000) (< f 1000000)) (= (codeOf f) f)) :pattern ((codeOf f)))))
; the comparator an application's KeyCompareForCollection callback returns for a collection name (A9: a function of the name)
(declare-fun kcfc (Int Int) Int)
;@spec kcfc smt=kcfc args=Int,Int res=Int
(declare-fun walkDir (Int) Int)
; visitDir classifies the two choice functions handed to Store.visitNodes (0: ascendChoice, 1: descendChoice)
(declare-fun visitDir (Int) Int)
;@spec visitDir smt=visitDir args=Int res=Int
; depth of key position k below the root of t (0 at the root)
(declare-fun depthIn (Int Tree) Int)
(assert (forall ((k Int) (l Tree) (i Int) (r Tree))
  (! (= (depthIn k (Node l i r)) (ite (= k (ikey i)) 0 (ite (< k (ikey i)) (+ 1 (depthIn k l)) (+ 1 (depthIn k r))))) :pattern ((depthIn k (Node l i r))))))
;@spec depthIn smt=depthIn args=Int,Tree res=Int
;@spec codeOf smt=codeOf args=Int res=Int
;@spec walkDir smt=walkDir args=Int res=Int
; LEMMA L1 (induction on t, DESIGN section 4): in a heap-ordered search tree no member outranks the root
(assert (forall ((k Int) (t Tree)) (! (=> (and (hp t) (bst t) (mem k t)) (<= (ipri (itemAt k t)) (rootPri t))) :pattern ((hp t) (itemAt k t)))))
;@spec mem smt=mem args=Int,Tree res=Bool
;@spec itemAt smt=itemAt args=Int,Tree res=Int
;@spec cnt smt=cnt args=Tree res=Int
;@spec sumb smt=sumb args=Tree res=Int
;@spec bst smt=bst args=Tree res=Bool
;@spec hp smt=hp args=Tree res=Bool
;@spec rootPri smt=rootPri args=Tree res=Int
;@spec ikey smt=ikey args=Int res=Int
;@spec ipri smt=ipri args=Int res=Int
;@spec ibytes smt=ibytes args=Int res=Int
(define-fun isLeaf ((t Tree)) Bool (= t Leaf))
;@spec isLeaf smt=isLeaf args=Tree res=Bool
(define-fun mkTree ((l Tree) (i Int) (r Tree)) Tree (Node l i r))
;@spec mkTree smt=mkTree args=Tree,Int,Tree res=Tree
(define-fun leafTree () Tree Leaf)
;@spec leafTree smt=leafTree args= res=Tree
(define-fun rootItem ((t Tree)) Int (ti t))
(define-fun leftTree ((t Tree)) Tree (tl t))
(define-fun rightTree ((t Tree)) Tree (tr t))
;@spec rootItem smt=rootItem args=Tree res=Int
;@spec leftTree smt=leftTree args=Tree res=Tree
;@spec rightTree smt=rightTree args=Tree res=Tree

; ghost denotations: tv(n) is the (time-independent) tree value of an in-memory node, ia(i) the abstract
; item of an in-memory item. What a nodeLoc / itemLoc SLOT denotes is ghost state (arrays tvs / ias in the
; contract file), updated explicitly by the contracts of the few functions that write slots.
(declare-fun tv (Int) Tree)
(declare-fun ia (Int) Int)
;@spec tv smt=tv args=Int res=Tree
;@spec ia smt=ia args=Int res=Int
; order position of a key given as bytes (under the collection's comparator, A11)
(declare-fun ordOf ((Array Int Int) Int Int) Int)
;@spec ordOf smt=ordOf args=(Array_Int_Int),Int,Int res=Int
; node invariant: the node's tree value is built from what its slots denote, its aggregates are exact
(define-fun nodeInv ((NN (Array Int Int)) (NB (Array Int Int)) (ILOC (Array Int Int)) (IITEM (Array Int Int)) (O (Array Int Int)) (L (Array Int Int)) (TVS (Array Int Tree)) (IAS (Array Int Int)) (n Int)) Bool
  (and (= (tv n) (Node (select TVS (|node.left@| n)) (select IAS (|node.item@| n)) (select TVS (|node.right@| n))))
       (= (select NN n) (cnt (tv n))) (= (select NB n) (sumb (tv n)))
       (or (not (= (select IITEM (|node.item@| n)) 0)) (not (emptyLoc O L (select ILOC (|node.item@| n)))))))
;@spec nodeInv smt=nodeInv args=Int res=Bool heap=node.numNodes,node.numBytes,itemLoc.loc,itemLoc.item,ploc.Offset,ploc.Length ghost=tvs,ias
; ===========================================================================
; Visitor invariants (higher-order visitor contracts, first-order encoding). vinv(C, n, stop, f, z): the
; invariant of the visitor function value f, with logical parameter z, holds in the state whose scalar cells
; are C, whose visit log has n entries and whose stop flag is stop. It is uninterpreted: a closure whose
; contract has a `tracks` clause defines it for that closure (axiom emitted where the closure is made and in
; the closure's own verification); for any other function value it is arbitrary. The function-type contract
; of visitors says every call preserves it (for every z), so a function that only runs visitor calls and
; touches no cell its visitor can have captured preserves it too.
(declare-fun vinv ((Array Int Int) Int Bool Int Int) Bool)
;@spec vinv smt=vinv args=Int,Int res=Bool heap=cell.Int ghost=vis.n,vis.stop
; footprint: a function value's invariant can only depend on cells that existed when the value was made
(assert (forall ((C (Array Int Int)) (a Int) (v Int) (n Int) (s Bool) (f Int) (z Int))
  (! (=> (>= (birth a) (birth f)) (= (vinv (store C a v) n s f z) (vinv C n s f z)))
     :pattern ((vinv (store C a v) n s f z)) :pattern ((vinv C n s f z) (store C a v)))))
; enumerates(K, lo, hi, t): the log segment K[lo..hi) is strictly increasing, holds only keys of t and holds
; every key of t. Only the introduction direction is given; LEMMA L3 (proved in Lean, /verif/lean/LemmaL.lean)
; says such a segment of a search tree has exactly cnt(t) entries.
(declare-fun enumerates ((Array Int Int) Int Int Tree) Bool)
;@spec enumerates smt=enumerates args=(Array_Int_Int),Int,Int,Tree res=Bool
(assert (forall ((K (Array Int Int)) (lo Int) (hi Int) (t Tree))
  (! (=> (and (<= lo hi)
              (forall ((i Int)) (! (=> (and (<= lo i) (< i hi)) (mem (select K i) t)) :pattern ((select K i))))
              (forall ((i Int) (j Int)) (! (=> (and (<= lo i) (< i j) (< j hi)) (< (select K i) (select K j))) :pattern ((select K i) (select K j))))
              (forall ((k Int)) (! (=> (mem k t) (exists ((i Int)) (and (<= lo i) (< i hi) (= (select K i) k)))) :pattern ((mem k t)))))
         (enumerates K lo hi t))
     :pattern ((enumerates K lo hi t)))))
(assert (forall ((K (Array Int Int)) (lo Int) (hi Int) (t Tree))
  (! (=> (and (enumerates K lo hi t) (bst t)) (= (- hi lo) (cnt t)))
     :pattern ((enumerates K lo hi t)))))
