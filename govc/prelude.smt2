; Spec vocabulary shared by all contracts (DESIGN.md section 4).
; Lines starting with ";@spec" register a function for use in contract expressions.
; Everything here is written from the file-format description in the property
; statements (C14 anchors), not from the code.

; ---- shifted block copy between byte arrays: dst with src[so .. so+n) copied to dst[do .. do+n) ----
(declare-fun shiftcopy ((Array Int Int) (Array Int Int) Int Int Int) (Array Int Int))
(assert (forall ((d (Array Int Int)) (s (Array Int Int)) (so Int) (do Int) (n Int) (j Int))
  (! (= (select (shiftcopy d s so do n) j) (ite (and (<= do j) (< j (+ do n))) (select s (+ so (- j do))) (select d j)))
     :pattern ((select (shiftcopy d s so do n) j)))))
; c[do .. do+n) agrees with f[so .. so+n)  (absolute indices; trigger on plain reads of c)
(define-fun agree ((c (Array Int Int)) (f (Array Int Int)) (so Int) (do Int) (n Int)) Bool
  (forall ((j Int)) (! (=> (and (<= do j) (< j (+ do n))) (= (select c j) (select f (+ so (- j do))))) :pattern ((select c j)))))
;@spec agree smt=agree args=(Array_Int_Int),(Array_Int_Int),Int,Int,Int res=Bool
;@spec shiftcopy smt=shiftcopy args=(Array_Int_Int),(Array_Int_Int),Int,Int,Int res=(Array_Int_Int)

; ---- big-endian fields of a byte array (file content or buffer content) ----
(define-fun fbe32 ((f (Array Int Int)) (o Int)) Int
  (+ (* 16777216 (select f o)) (* 65536 (select f (+ o 1))) (* 256 (select f (+ o 2))) (select f (+ o 3))))
(define-fun fbe64 ((f (Array Int Int)) (o Int)) Int
  (+ (* 72057594037927936 (select f o)) (* 281474976710656 (select f (+ o 1))) (* 1099511627776 (select f (+ o 2))) (* 4294967296 (select f (+ o 3)))
     (* 16777216 (select f (+ o 4))) (* 65536 (select f (+ o 5))) (* 256 (select f (+ o 6))) (select f (+ o 7))))
; two's complement reading of an unsigned 64-bit value
(define-fun s64 ((u Int)) Int (ite (>= u 9223372036854775808) (- u 18446744073709551616) u))
;@spec fbe32 smt=fbe32 args=(Array_Int_Int),Int res=Int
;@spec fbe64 smt=fbe64 args=(Array_Int_Int),Int res=Int
;@spec s64 smt=s64 args=Int res=Int

; ---- root record framing (version 4) ----
; "0g1t2r" = 48 103 49 116 50 114     "3e4a5p" = 51 101 52 97 53 112
(define-fun magicBegAt ((f (Array Int Int)) (o Int)) Bool
  (and (= (select f o) 48) (= (select f (+ o 1)) 103) (= (select f (+ o 2)) 49) (= (select f (+ o 3)) 116) (= (select f (+ o 4)) 50) (= (select f (+ o 5)) 114)
       (= (select f (+ o 6)) 48) (= (select f (+ o 7)) 103) (= (select f (+ o 8)) 49) (= (select f (+ o 9)) 116) (= (select f (+ o 10)) 50) (= (select f (+ o 11)) 114)))
; p is the END offset of the record: the last 12 bytes are the doubled end marker
(define-fun magicEndAt ((f (Array Int Int)) (p Int)) Bool
  (and (= (select f (- p 12)) 51) (= (select f (- p 11)) 101) (= (select f (- p 10)) 52) (= (select f (- p 9)) 97) (= (select f (- p 8)) 53) (= (select f (- p 7)) 112)
       (= (select f (- p 6)) 51) (= (select f (- p 5)) 101) (= (select f (- p 4)) 52) (= (select f (- p 3)) 97) (= (select f (- p 2)) 53) (= (select f (- p 1)) 112)))
;@spec magicBegAt smt=magicBegAt args=(Array_Int_Int),Int res=Bool
;@spec magicEndAt smt=magicEndAt args=(Array_Int_Int),Int res=Bool

; encoding/json accepts bytes [lo, lo+n) of f as a map name -> {"o":..,"l":..} (trusted, A8)
(declare-fun jsonOKAt ((Array Int Int) Int Int) Bool)
;@spec jsonOKAt smt=jsonOKAt args=(Array_Int_Int),Int,Int res=Bool

; a root record starting at o with recorded length l ends exactly at p and is well framed
(define-fun rootFramed ((f (Array Int Int)) (p Int) (o Int) (l Int)) Bool
  (and (>= o 0) (< o (- p 44)) (= l (mod (- p o) 4294967296))
       (magicBegAt f o) (= (fbe32 f (+ o 12)) 4) (= (fbe32 f (+ o 16)) l)
       (jsonOKAt f (+ o 20) (- (- p o) 44))))
;@spec rootFramed smt=rootFramed args=(Array_Int_Int),Int,Int,Int res=Bool

; "a complete, self-consistent root record ends at p"
(define-fun validRootEndingAt ((f (Array Int Int)) (p Int)) Bool
  (and (> p 44) (magicEndAt f p)
       (rootFramed f p (s64 (fbe64 f (- p 24))) (fbe32 f (- p 16)))))
;@spec validRootEndingAt smt=validRootEndingAt args=(Array_Int_Int),Int res=Bool
