; Spec vocabulary shared by all contracts (DESIGN.md section 4).
; Lines starting with ";@spec" register a function for use in contract expressions.
