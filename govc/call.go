package main

import (
	"fmt"
	"go/token"
	"go/types"
	"sort"
	"strings"

	"golang.org/x/tools/go/ssa"
)

// calleeKey gives the lookup name of a static callee: short name for package
// functions, full name for library functions.
func calleeName(fn *ssa.Function) string {
	return shortName(fn)
}

func (x *Exec) inPackage(fn *ssa.Function) bool {
	if fn.Pkg != nil {
		return fn.Pkg == x.v.pkg
	}
	// closures / wrappers
	if fn.Parent() != nil {
		return x.inPackage(fn.Parent())
	}
	return false
}

func (x *Exec) callOrdinal(ins ssa.Instruction, callee string) int {
	// occurrence index of this call among calls to the same callee in the function (static order)
	fn := ins.Parent()
	key := fn
	x.v.mu.Lock()
	defer x.v.mu.Unlock()
	m, ok := x.v.callOrdCache[key]
	if !ok {
		m = map[ssa.Instruction]int{}
		counts := map[string]int{}
		for _, b := range fn.Blocks {
			for _, i := range b.Instrs {
				var cc *ssa.CallCommon
				switch c := i.(type) {
				case *ssa.Call:
					cc = &c.Call
				case *ssa.Defer:
					cc = &c.Call
				case *ssa.Go:
					cc = &c.Call
				}
				if cc == nil {
					continue
				}
				n := x.commonName(cc)
				m[i] = counts[n]
				counts[n]++
			}
		}
		x.v.callOrdCache[key] = m
	}
	return m[ins]
}

func (x *Exec) commonName(cc *ssa.CallCommon) string {
	if cc.IsInvoke() {
		return typeName(cc.Value.Type()) + "." + cc.Method.Name()
	}
	if f := cc.StaticCallee(); f != nil {
		return calleeName(f)
	}
	if b, ok := cc.Value.(*ssa.Builtin); ok {
		return b.Name()
	}
	return "dyn:" + x.operandText(cc.Value)
}

func (x *Exec) doCall(st *State, i *ssa.Call) bool {
	fr := st.top()
	args := make([]Val, len(i.Call.Args))
	for k, a := range i.Call.Args {
		args[k] = x.val(st, a)
	}
	var pre *Snapshot
	if x.con != nil && len(x.con.After) > 0 && len(st.frames) == 1 {
		pre = st.snapshot()
	}
	res, inlined := x.callCommon(st, &i.Call, args, i, false)
	if inlined {
		return true // a new frame was pushed; execution continues in the callee
	}
	fr.vals[i] = res
	if pre != nil && x.lastAfterIns != ssa.Instruction(i) {
		// calls handled by an intrinsic or left symbolic can carry after-clauses too
		name := x.commonName(&i.Call)
		x.applyAfter(st, fmt.Sprintf("%s.%d", name, x.callOrdinal(i, name)), pre, i.Pos())
	}
	return true
}

func (x *Exec) doDefer(st *State, i *ssa.Defer) {
	fr := st.top()
	d := deferred{call: &i.Call, pos: posString(x.v.fset, i.Pos())}
	for _, a := range i.Call.Args {
		d.args = append(d.args, x.val(st, a))
	}
	if !i.Call.IsInvoke() {
		d.fn = x.val(st, i.Call.Value)
	} else {
		d.fn = x.val(st, i.Call.Value)
	}
	fr.defers = append(fr.defers, d)
	_ = fr
}

// runDefers executes the deferred calls of the top frame in LIFO order.
func (x *Exec) runDefers(st *State) bool {
	fr := st.top()
	for len(fr.defers) > 0 {
		d := fr.defers[len(fr.defers)-1]
		fr.defers = fr.defers[:len(fr.defers)-1]
		_, inlined := x.callCommonVals(st, d.call, d.fn, d.args, nil, true)
		if inlined {
			// the callee frame will come back to RunDefers: re-run this instruction after it returns
			fr.idx-- // re-execute RunDefers when the inlined deferred call returns
			return true
		}
	}
	return true
}

func (x *Exec) callCommon(st *State, cc *ssa.CallCommon, args []Val, site *ssa.Call, isDefer bool) (Val, bool) {
	var fnv Val
	if !cc.IsInvoke() {
		if _, isBuiltin := cc.Value.(*ssa.Builtin); !isBuiltin {
			fnv = x.val(st, cc.Value)
		}
	} else {
		fnv = x.val(st, cc.Value)
	}
	return x.callCommonVals(st, cc, fnv, args, site, isDefer)
}

func (x *Exec) callCommonVals(st *State, cc *ssa.CallCommon, fnv Val, args []Val, site *ssa.Call, isDefer bool) (Val, bool) {
	var ins ssa.Instruction
	if site != nil {
		ins = site
	}
	pos := cc.Pos()
	// builtins
	if b, ok := cc.Value.(*ssa.Builtin); ok && !cc.IsInvoke() {
		return x.builtin(st, b, cc, args, pos), false
	}
	// interface method
	if cc.IsInvoke() {
		name := typeName(cc.Value.Type()) + "." + cc.Method.Name()
		x.safe(st, "nil", x.operandText(cc.Value)+"."+cc.Method.Name(), not(eq(fnv.T, "0")), pos)
		if r, ok := x.intrinsicInvoke(st, name, fnv, args, cc, pos); ok {
			return r, false
		}
		con := x.v.cf.Interfaces[name]
		if con == nil {
			x.missing(st, "interface method "+name)
			return x.symbolic(st, cc.Signature().Results(), "res"), false
		}
		x.noLockHeld(st, con, name, pos)
		all := append([]Val{fnv}, args...)
		names := append([]string{"recv"}, con.Params...)
		return x.applyContract(st, con, name, names, all, cc.Signature().Results(), con.Results, ins, pos), false
	}
	// static callee
	if callee := cc.StaticCallee(); callee != nil && fnv.K != VClosure {
		name := calleeName(callee)
		if !x.inPackage(callee) {
			if r, ok := x.intrinsic(st, name, args, cc, pos); ok {
				return r, false
			}
			con := x.v.cf.Externs[name]
			if con == nil {
				x.missing(st, "library function "+name)
				return x.symbolic(st, cc.Signature().Results(), "res"), false
			}
			return x.applyContract(st, con, name, con.Params, args, cc.Signature().Results(), con.Results, ins, pos), false
		}
		con := x.v.cf.Funcs[name]
		if con == nil {
			// a function of the package without a contract (typically a helper that a change has just
			// introduced): execute its body in place, unless it is (mutually) recursive or the nesting is deep
			if len(callee.Blocks) > 0 && len(st.frames) < 6 && !x.onStack(st, callee) {
				x.v.noteInlinedNoContract(x.shortFn(x.fn), name)
				return x.inline(st, callee, nil, args, site, isDefer)
			}
			x.missing(st, "function "+name)
			return x.symbolic(st, cc.Signature().Results(), "res"), false
		}
		if con.Inline {
			return x.inline(st, callee, nil, args, site, isDefer)
		}
		var names []string
		for _, p := range callee.Params {
			names = append(names, p.Name())
		}
		return x.applyContract(st, con, name, names, args, cc.Signature().Results(), resultNames(callee), ins, pos), false
	}
	// closures and function values
	switch fnv.K {
	case VClosure:
		name := calleeName(fnv.Fn)
		con := x.v.cf.Funcs[name]
		if con == nil || con.Inline {
			// closures defined in the package are inlined by default
			return x.inline(st, fnv.Fn, fnv.Bind, args, site, isDefer)
		}
		var names []string
		for _, p := range fnv.Fn.Params {
			names = append(names, p.Name())
		}
		// free variables are bound by name too
		all := append([]Val(nil), args...)
		for k, fv := range fnv.Fn.FreeVars {
			names = append(names, fv.Name())
			all = append(all, fnv.Bind[k])
		}
		x.pendingEsc = []Val{fnv}
		return x.applyContract(st, con, name, names, all, cc.Signature().Results(), resultNames(fnv.Fn), ins, pos), false
	case VFunc:
		name := calleeName(fnv.Fn)
		con := x.v.cf.Funcs[name]
		if con == nil {
			x.missing(st, "function "+name)
			return x.symbolic(st, cc.Signature().Results(), "res"), false
		}
		if con.Inline {
			return x.inline(st, fnv.Fn, nil, args, site, isDefer)
		}
		var names []string
		for _, p := range fnv.Fn.Params {
			names = append(names, p.Name())
		}
		return x.applyContract(st, con, name, names, args, cc.Signature().Results(), resultNames(fnv.Fn), ins, pos), false
	}
	// dynamic function value: contract of the function type
	tname := ""
	if n, ok := cc.Value.Type().(*types.Named); ok {
		tname = n.Obj().Name()
	}
	var con *Contract
	if tname != "" {
		con = x.v.cf.FuncTypes[tname]
	}
	if con == nil {
		// a function-typed struct field: keyed by <StructType>.<field>
		if u, ok := cc.Value.(*ssa.UnOp); ok {
			if fa, ok := u.X.(*ssa.FieldAddr); ok {
				pt := fa.X.Type().Underlying().(*types.Pointer).Elem()
				key := typeName(pt) + "." + pt.Underlying().(*types.Struct).Field(fa.Field).Name()
				if c := x.v.cf.FuncTypes[key]; c != nil {
					con, tname = c, key
				}
			}
		}
	}
	if con == nil {
		// keyed by function + operand text (e.g. walk.cfn, withAllocLocks.cb)
		key := shortName(st.top().fn) + "." + x.operandText(cc.Value)
		con = x.v.cf.FuncTypes[key]
		tname = key
	}
	x.safe(st, "nil", "call "+x.operandText(cc.Value), not(eq(fnv.T, "0")), pos)
	if con == nil {
		x.missing(st, "function value "+tname)
		return x.symbolic(st, cc.Signature().Results(), "res"), false
	}
	x.noLockHeld(st, con, tname, pos)
	all := append([]Val{fnv}, args...)
	names := append([]string{"self"}, con.Params...)
	return x.applyContract(st, con, tname, names, all, cc.Signature().Results(), con.Results, ins, pos), false
}

func resultNames(fn *ssa.Function) []string {
	var out []string
	res := fn.Signature.Results()
	for i := 0; i < res.Len(); i++ {
		out = append(out, res.At(i).Name())
	}
	return out
}

func (x *Exec) missing(st *State, what string) {
	st.tainted = "no contract for " + what
	x.v.noteMissing(x.shortFn(x.fn), what)
}

// applyContract: assert preconditions, havoc modifies, assume postconditions.
func (x *Exec) applyContract(st *State, con *Contract, cname string, pnames []string, args []Val,
	resT *types.Tuple, rnames []string, ins ssa.Instruction, pos token.Pos) Val {
	vars := map[string]Val{}
	for k, n := range pnames {
		if k < len(args) && n != "" && n != "_" {
			vars[n] = args[k]
		}
	}
	ord := 0
	if ins != nil {
		ord = x.callOrdinal(ins, cname)
	}
	site := fmt.Sprintf("%s.%d", cname, ord)
	pre := st.snapshot()
	env := &Env{x: x, st: st, old: nil, vars: vars, entry: st.entry}
	for k, rq := range con.Requires {
		g, err := env.evalBool(rq.E)
		if err != nil {
			x.errorf("%s: requires %q of %s: %v", x.shortFn(x.fn), rq.Src, cname, err)
			continue
		}
		tags := rq.Tags
		x.emit(st, "pre", "pre@"+site+"."+clauseName(rq, k), g, x.tagsOf(tags), "precondition of "+cname+": "+rq.Src, pos)
	}
	// recursion variant
	if con.Decr != nil && x.con != nil && x.con.Decr != nil && x.sameRecursionGroup(cname) {
		d, err := env.evalTerm(con.Decr)
		if err == nil && x.entryDecr != "" {
			x.emit(st, "rec", "rec.dec@"+site, and(app("<", d.T, x.entryDecr), app(">=", x.entryDecr, "0")), x.termTags(),
				"variant of recursive call decreases: "+con.DecrSrc, pos)
		}
	}
	// havoc
	ts, err := env.evalTargets(con.Modifies)
	if err != nil {
		x.errorf("%s: modifies of %s: %v", x.shortFn(x.fn), cname, err)
	}
	nowBefore := st.now
	x.applyHavoc(st, ts, nowBefore, nil)
	x.escapeHavoc(st, args, ts, false)
	x.escapeHavoc(st, x.pendingEsc, ts, true)
	x.pendingEsc = nil
	n := x.fresh("now", SInt)
	st.assume(app(">=", n, st.now))
	st.now = n
	x.closureFacts(st, ts)
	// results
	var res Val
	switch resT.Len() {
	case 0:
		res = Val{K: VNone}
	case 1:
		res = x.symbolic(st, resT.At(0).Type(), "r."+lastSeg(cname))
		name := "result"
		if len(rnames) > 0 && rnames[0] != "" {
			vars[rnames[0]] = res
		}
		vars[name] = res
	default:
		res = Val{K: VTuple}
		for k := 0; k < resT.Len(); k++ {
			r := x.symbolic(st, resT.At(k).Type(), fmt.Sprintf("r%d.%s", k, lastSeg(cname)))
			res.Elems = append(res.Elems, r)
			vars[fmt.Sprintf("result%d", k)] = r
			if k < len(rnames) && rnames[k] != "" && rnames[k] != "_" {
				vars[rnames[k]] = r
			}
		}
	}
	env2 := &Env{x: x, st: st, old: pre, vars: vars, entry: st.entry}
	for _, en := range append(append([]*Clause(nil), con.Ensures...), con.Postulates...) {
		g, err := env2.evalBool(en.E)
		if err != nil {
			x.errorf("%s: ensures %q of %s: %v", x.shortFn(x.fn), en.Src, cname, err)
			continue
		}
		st.assume(g)
	}
	if len(con.Postulates) > 0 {
		x.v.notePostulate(cname)
	}
	x.afterResult = &res
	x.applyAfter(st, site, pre, pos)
	x.afterResult = nil
	x.lastAfterIns = ins
	x.v.noteUse(x.shortFn(x.fn), cname, con)
	return res
}

// applyAfter runs the `after <site> ...` clauses of the function under verification (ghost assignments,
// ghost assertions, listed separation assumptions) once the call at that site has returned.
func (x *Exec) applyAfter(st *State, site string, pre *Snapshot, pos token.Pos) {
	// separation facts assumed after this call site by the function under verification
	if x.con != nil && len(st.frames) == 1 {
		for _, cl := range x.con.After[site] {
			fe := x.envFor(st)
			x.addNamedLocals(fe, st)
			x.bindCallResult(fe)
			fe.old = pre
			if cl.Kind == "after.sets" {
				// ghost assignment: the named ghost variable takes the value of the expression
				v, err := fe.evalTerm(cl.E)
				if err != nil {
					x.errorf("%s: after %s sets %s: %v", x.shortFn(x.fn), site, cl.Label, err)
					continue
				}
				if !x.isGhost(cl.Label) {
					x.errorf("%s: after %s sets: %s is not a ghost variable", x.shortFn(x.fn), site, cl.Label)
					continue
				}
				// (the frame obligation at function exit covers ghosts that are not in the modifies clause)
				st.setG(cl.Label, v.T)
				continue
			}
			g, err := fe.evalBool(cl.E)
			if err != nil {
				x.errorf("%s: after %s: %v", x.shortFn(x.fn), site, err)
				continue
			}
			if cl.Kind == "after.asserts" {
				// in a ghost assertion old() denotes the state at function entry (as in postconditions)
				fe2 := x.envFor(st)
				x.addNamedLocals(fe2, st)
				x.bindCallResult(fe2)
				if g2, err2 := fe2.evalBool(cl.E); err2 == nil {
					g = g2
				}
				x.emit(st, "assert", "assert@"+site+"."+clauseName(cl, 0), g, x.tagsOf(cl.Tags), "ghost assertion after "+site+": "+cl.Src, pos)
				continue
			}
			st.assume(g)
			x.v.noteRelies(x.shortFn(x.fn)+" after "+site, []*Clause{cl})
		}
	}
}

func lastSeg(s string) string {
	if i := strings.LastIndexAny(s, ".)"); i >= 0 && i+1 < len(s) {
		return s[i+1:]
	}
	return s
}

func (x *Exec) sameRecursionGroup(callee string) bool {
	if callee == x.shortFn(x.fn) {
		return true
	}
	return x.v.recGroup[callee] != "" && x.v.recGroup[callee] == x.v.recGroup[x.shortFn(x.fn)]
}

// inline pushes a frame for callee; execution continues there.
func (x *Exec) inline(st *State, callee *ssa.Function, bind []Val, args []Val, site *ssa.Call, isDefer bool) (Val, bool) {
	if len(callee.Blocks) == 0 {
		x.missing(st, "body of "+callee.String())
		return x.symbolic(st, callee.Signature.Results(), "res"), false
	}
	depth := len(st.frames)
	if depth > 12 {
		x.errorf("inline depth exceeded at %s", callee.Name())
		st.tainted = "inline depth"
		return x.symbolic(st, callee.Signature.Results(), "res"), false
	}
	fr := &Frame{fn: callee, vals: map[ssa.Value]Val{}, block: callee.Blocks[0], idx: 0, bind: bind, callPos: site, isDefer: isDefer || site == nil, depth: depth}
	for k, p := range callee.Params {
		if k < len(args) {
			fr.vals[p] = args[k]
		}
	}
	st.frames = append(st.frames, fr)
	return Val{}, true
}

// doReturn handles a return instruction: for inlined frames, resume the caller;
// for the function under verification, check the postconditions.
func (x *Exec) doReturn(st *State, r *ssa.Return) bool {
	fr := st.top()
	var res Val
	switch len(r.Results) {
	case 0:
		res = Val{K: VNone}
	case 1:
		res = x.val(st, r.Results[0])
	default:
		res = Val{K: VTuple}
		for _, rv := range r.Results {
			res.Elems = append(res.Elems, x.val(st, rv))
		}
	}
	if len(st.frames) > 1 {
		st.frames = st.frames[:len(st.frames)-1]
		parent := st.top()
		if fr.callPos != nil && !fr.isDefer {
			parent.vals[fr.callPos] = res
		}
		return true
	}
	x.finish(st, res, r.Pos())
	x.paths++
	x.returns++
	return false
}

// ---- builtins ----

func (x *Exec) builtin(st *State, b *ssa.Builtin, cc *ssa.CallCommon, args []Val, pos token.Pos) Val {
	switch b.Name() {
	case "len":
		a := args[0]
		switch u := cc.Args[0].Type().Underlying().(type) {
		case *types.Slice:
			return term(app("slen", a.T), SInt, types.Typ[types.Int])
		case *types.Basic:
			return term(app("strlen", a.T), SInt, types.Typ[types.Int])
		case *types.Array:
			return term(num(u.Len()), SInt, types.Typ[types.Int])
		case *types.Pointer:
			if ar, ok := u.Elem().Underlying().(*types.Array); ok {
				return term(num(ar.Len()), SInt, types.Typ[types.Int])
			}
		case *types.Map:
			n := x.named(st, term(app("maplen", sel(st.H("map.dom", "(Array Int Bool)"), a.T)), SInt, types.Typ[types.Int]), "maplen")
			st.assume(app(">=", n.T, "0"))
			return n
		}
	case "cap":
		if _, ok := cc.Args[0].Type().Underlying().(*types.Slice); ok {
			return term(app("scap", args[0].T), SInt, types.Typ[types.Int])
		}
	case "copy":
		dst, src := args[0], args[1]
		n := x.fresh("ncopy", SInt)
		var srcLen string
		if isStringT(cc.Args[1].Type()) {
			srcLen = app("strlen", src.T)
		} else {
			srcLen = app("slen", src.T)
		}
		st.assume(eq(n, ite(app("<=", app("slen", dst.T), srcLen), app("slen", dst.T), srcLen)))
		elem, es := sliceElem(cc.Args[0].Type())
		m := memName(es, elem)
		ms := "(Array Int " + es + ")"
		h := st.H(m, ms)
		nc := x.fresh("copied", ms)
		oldc := sel(h, app("sarr", dst.T))
		k := x.freshBound("k")
		var srcAt string
		if isStringT(cc.Args[1].Type()) {
			srcAt = app("strbyte", src.T, app("-", k, app("soff", dst.T)))
		} else {
			srcAt = sel(sel(h, app("sarr", src.T)), app("+", app("soff", src.T), app("-", k, app("soff", dst.T))))
		}
		st.assume("(forall ((" + k + " Int)) (! (= (select " + nc + " " + k + ") (ite (and (<= (soff " + dst.T + ") " + k + ") (< " + k + " (+ (soff " + dst.T + ") " + n + "))) " + srcAt + " (select " + oldc + " " + k + "))) :pattern ((select " + nc + " " + k + "))))")
		st.setH(m, ms, store(h, app("sarr", dst.T), nc))
		return term(n, SInt, types.Typ[types.Int])
	case "append":
		return x.appendBuiltin(st, cc, args)
	case "delete":
		m, k := args[0], args[1]
		d := st.H("map.dom", "(Array Int Bool)")
		st.setH("map.dom", "(Array Int Bool)", store(d, m.T, store(sel(d, m.T), k.T, "false")))
		return Val{K: VNone}
	case "close":
		st.tainted = "channel close"
		x.v.noteUnsupported(x.shortFn(st.top().fn), "channel close")
		return Val{K: VNone}
	case "print", "println":
		return Val{K: VNone}
	}
	x.errorf("unsupported builtin %s", b.Name())
	return x.symbolic(st, cc.Signature().Results(), "builtin")
}

func (x *Exec) appendBuiltin(st *State, cc *ssa.CallCommon, args []Val) Val {
	s := args[0]
	elem, es := sliceElem(cc.Args[0].Type())
	m := memName(es, elem)
	ms := "(Array Int " + es + ")"
	// append(s, one...) where the variadic slice was built by the SSA builder from a
	// fresh array; we model the general case: result has the old elements followed by
	// the elements of args[1].
	add := args[1]
	var addLen string
	if isStringT(cc.Args[1].Type()) {
		addLen = app("strlen", add.T)
	} else {
		addLen = app("slen", add.T)
	}
	newLen := app("+", app("slen", s.T), addLen)
	fits := app("<=", newLen, app("scap", s.T))
	// new backing array when it does not fit
	narr := x.allocRef(st, "grown")
	ncap := x.fresh("ncap", SInt)
	st.assume(app(">=", ncap, newLen))
	r := x.fresh("app", SSlice)
	st.assume(eq(r, ite(fits,
		app("mkslice", app("sarr", s.T), app("soff", s.T), newLen, app("scap", s.T)),
		app("mkslice", narr, "0", newLen, ncap))))
	h := st.H(m, ms)
	nc := x.fresh("appcontent", ms)
	k := x.freshBound("k")
	oldc := sel(h, app("sarr", s.T))
	var addAt string
	rOff := app("soff", r)
	if isStringT(cc.Args[1].Type()) {
		addAt = app("strbyte", add.T, app("-", k, rOff, app("slen", s.T)))
	} else {
		addAt = sel(sel(h, app("sarr", add.T)), app("+", app("soff", add.T), app("-", k, rOff, app("slen", s.T))))
	}
	// content of the result's backing array
	st.assume("(forall ((" + k + " Int)) (! (= (select " + nc + " " + k + ") " +
		ite(and(app("<=", app("+", rOff, app("slen", s.T)), k), app("<", k, app("+", rOff, newLen))), addAt,
			ite(fits, sel(oldc, k), ite(and(app("<=", "0", k), app("<", k, app("slen", s.T))), sel(oldc, app("+", app("soff", s.T), k)), x.zeroTerm(es)))) +
		") :pattern ((select " + nc + " " + k + "))))")
	// ground instance for the first appended element (gives existential goals a witness term)
	if !isStringT(cc.Args[1].Type()) {
		first := app("+", rOff, app("slen", s.T))
		st.assume(implies(app(">=", addLen, "1"), eq(sel(nc, first), sel(sel(h, app("sarr", add.T)), app("soff", add.T)))))
	}
	st.setH(m, ms, store(h, app("sarr", r), nc))
	return term(r, SSlice, cc.Args[0].Type())
}

// noLockHeld: C05 L3 / C18 K1 -- no gkvlite lock is held while foreign code runs (file methods,
// visitors, comparators, callbacks), unless the contract carries the documented exemption.
func (x *Exec) noLockHeld(st *State, con *Contract, name string, pos token.Pos) {
	if con.LockExempt || !x.isGhost("locks") {
		return
	}
	x.emit(st, "ghost", "nolock@"+name, eq(st.G("locks"), "emptyLocks"), []string{"C05", "C18"}, "no gkvlite lock is held while foreign code ("+name+") runs", pos)
}

// storedFreeVars: the indices of fn's free variables (captured cells) that fn, or a closure made inside
// fn that captures the same cell, stores to. Captured cells are addressable only through the closure,
// so this syntactic scan is exact for "which captured cells can a call of the closure change".
func storedFreeVars(fn *ssa.Function, seen map[*ssa.Function]bool) map[int]bool {
	out := map[int]bool{}
	if seen[fn] {
		return out
	}
	seen[fn] = true
	idx := map[ssa.Value]int{}
	for k, fv := range fn.FreeVars {
		idx[fv] = k
	}
	for _, b := range fn.Blocks {
		for _, ins := range b.Instrs {
			switch i := ins.(type) {
			case *ssa.Store:
				if k, ok := idx[i.Addr]; ok {
					out[k] = true
				}
			case *ssa.MakeClosure:
				inner := i.Fn.(*ssa.Function)
				st := storedFreeVars(inner, seen)
				for j, bv := range i.Bindings {
					if k, ok := idx[bv]; ok && st[j] {
						out[k] = true
					}
				}
			}
		}
	}
	return out
}

// escapeHavoc: a closure handed to a callee may be invoked by it any number of times. What such
// invocations do to the ghost state is part of the callee's contract (through the function-type
// contract of its parameter); what they do to the cells the closure captured is not visible to the
// callee at all, so those cells -- exactly the captured cells the closure's code stores to -- are
// havocked here, at the call site. Any other (non-ghost, non-cell) array the closure's own contract
// lists in its modifies clause and that the callee does not already havoc as a whole is havocked as
// a whole (coarse, sound).
func (x *Exec) escapeHavoc(st *State, args []Val, calleeTs []target, direct bool) {
	for _, a := range args {
		if a.K != VClosure || a.Fn == nil {
			continue
		}
		con := x.v.cf.Funcs[calleeName(a.Fn)]
		skipArrays := con == nil || direct // (a closure that is called directly is the callee: its own modifies clause has just been applied)
		var cts []target
		captured := map[string]bool{}
		whole := map[string]bool{}
		if !skipArrays {
			for _, b := range a.Bind {
				if b.K == VTerm {
					captured[b.T] = true
				}
			}
			for _, t := range calleeTs {
				if t.whole {
					whole[t.array] = true
				}
			}
			// every other (non-ghost, non-cell) array the closure's contract lets it modify -- as a whole or at
			// some location -- and that the callee does not already havoc as a whole, is havocked as a whole
			vars := map[string]Val{}
			for k, fv := range a.Fn.FreeVars {
				if k < len(a.Bind) {
					vars[fv.Name()] = a.Bind[k]
				}
			}
			for _, p := range a.Fn.Params {
				vars[p.Name()] = x.symbolic(st, p.Type(), "escp")
			}
			cenv := &Env{x: x, st: st, old: nil, vars: vars, entry: st.entry}
			// (evaluated in the state BEFORE the captured cells are havocked: `content(deref(v))` is the array v holds now)
			var err error
			cts, err = cenv.evalTargets(con.Modifies)
			if err != nil {
				st.tainted = "modifies clause of " + calleeName(a.Fn) + " cannot be evaluated where the closure is handed over: " + err.Error()
				cts = nil
			}
		}
		stored := storedFreeVars(a.Fn, map[*ssa.Function]bool{})
		var ks []int
		for k := range stored {
			ks = append(ks, k)
		}
		sort.Ints(ks)
		for _, k := range ks {
			if k >= len(a.Bind) {
				continue
			}
			ptr := a.Bind[k]
			pt, ok := a.Fn.FreeVars[k].Type().Underlying().(*types.Pointer)
			if !ok || ptr.K != VTerm {
				continue
			}
			elemT := pt.Elem()
			if isStruct(elemT) {
				x.storeStruct(st, ptr.T, elemT, x.symbolic(st, elemT, "esc"))
				continue
			}
			if _, isArr := elemT.Underlying().(*types.Array); isArr {
				st.tainted = "closure stores to a captured array variable"
				continue
			}
			es := sortOf(elemT)
			name := "cell." + es
			nv := x.symbolic(st, elemT, "esc")
			if nv.K != VTerm {
				st.tainted = "closure stores to a captured composite variable"
				continue
			}
			st.setH(name, es, store(st.H(name, es), ptr.T, nv.T))
		}
		done := map[string]bool{}
		for _, t := range cts {
			if t.ghost || strings.HasPrefix(t.array, "cell.") || whole[t.array] || done[t.array] {
				continue
			}
			if t.fresh || (t.ref != "" && captured[t.ref]) {
				continue // objects the closure allocates itself; fields of a captured struct variable (havocked above)
			}
			if t.ref != "" && !t.whole {
				// one location of the array (content(x), x.f): havoc just that location
				nv := x.fresh("esc", t.esort)
				st.setH(t.array, t.esort, store(st.H(t.array, t.esort), t.ref, nv))
				continue
			}
			done[t.array] = true
			st.havocH(t.array, t.esort)
		}
	}
}

// bindCallResult makes the result(s) of the call an `after` clause is attached to visible as callresult
// (callresult0, callresult1, ... for several results).
func (x *Exec) bindCallResult(e *Env) {
	if x.afterResult == nil {
		return
	}
	r := *x.afterResult
	switch r.K {
	case VTuple:
		for k, el := range r.Elems {
			e.vars[fmt.Sprintf("callresult%d", k)] = el
		}
	case VNone:
	default:
		e.vars["callresult"] = r
	}
}

func (x *Exec) onStack(st *State, fn *ssa.Function) bool {
	for _, fr := range st.frames {
		if fr.fn == fn {
			return true
		}
	}
	return false
}
