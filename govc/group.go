package main

// Grouping of obligations into incremental solver sessions. Obligations that lie
// on one path (each one's facts extend the previous one's) share a script:
// prelude and declarations once, then facts are asserted incrementally and each
// goal is checked inside (push)/(pop). This cuts the number of solver processes
// and the re-parsing of shared prefixes by an order of magnitude. Anything the
// incremental session does not decide is re-run standalone by the portfolio.

import (
	"fmt"
	"strings"
)

type Group struct {
	x    *Exec
	Obls []*Obligation
}

func isAncestor(a, b *factNode) bool {
	if a == nil {
		return true
	}
	for b != nil && b.n > a.n {
		b = b.prev
	}
	return b == a
}

func factsBetween(a, b *factNode) []string {
	var out []string
	for n := b; n != nil && n != a; n = n.prev {
		out = append(out, n.line)
	}
	for i, j := 0, len(out)-1; i < j; i, j = i+1, j-1 {
		out[i], out[j] = out[j], out[i]
	}
	return out
}

func (x *Exec) makeGroups(obls []*Obligation) []*Group {
	var groups []*Group
	var cur *Group
	for _, o := range obls {
		o.x = x
		if o.Tainted != "" {
			continue
		}
		if cur != nil && len(cur.Obls) < 60 {
			last := cur.Obls[len(cur.Obls)-1]
			if isAncestor(last.pre, o.pre) {
				cur.Obls = append(cur.Obls, o)
				continue
			}
		}
		cur = &Group{x: x, Obls: []*Obligation{o}}
		groups = append(groups, cur)
	}
	return groups
}

// script builds the incremental script of a group.
func (g *Group) script(perCheckMs int) string {
	x := g.x
	var texts []string
	var prev *factNode
	type step struct {
		facts []string
		o     *Obligation
	}
	var steps []step
	for _, o := range g.Obls {
		fs := factsBetween(prev, o.pre)
		prev = o.pre
		steps = append(steps, step{fs, o})
		texts = append(texts, fs...)
		texts = append(texts, o.Goal)
	}
	var sb strings.Builder
	fmt.Fprintf(&sb, "(set-option :timeout %d)\n", perCheckMs)
	sb.WriteString(x.header(texts))
	for _, s := range steps {
		for _, f := range s.facts {
			sb.WriteString("(assert ")
			sb.WriteString(f)
			sb.WriteString(")\n")
		}
		sb.WriteString("(push 1)\n")
		if s.o.Expect == "unsat" {
			sb.WriteString("(assert (not ")
			sb.WriteString(s.o.Goal)
			sb.WriteString("))\n")
		}
		sb.WriteString("(check-sat)\n(pop 1)\n")
	}
	return sb.String()
}

// Script of a single obligation (standalone, non-incremental).
func (o *Obligation) script() string {
	if o.Script == "" && o.x != nil {
		o.Facts = factsBetween(nil, o.pre)
		o.Script = o.x.script(o)
	}
	return o.Script
}
