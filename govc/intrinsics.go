package main

// Built-in models of library functions whose semantics need more than the
// contract language offers (pointer-to-field arguments, byte packing, buffers).
// Each of these is part of the trusted base (assumptions A3, A6, A7) and is
// listed in the evidence when used.

import (
	"go/token"
	"go/types"
	"strings"

	"golang.org/x/tools/go/ssa"
)

func (x *Exec) useIntrinsic(name string) { x.v.noteIntrinsic(x.shortFn(x.fn), name) }

func (x *Exec) intrinsic(st *State, name string, args []Val, cc *ssa.CallCommon, pos token.Pos) (Val, bool) {
	I := types.Typ[types.Int]
	if strings.HasSuffix(name, ".init") && len(args) == 0 {
		// initialisers of imported packages: no effect on this package's state
		x.useIntrinsic("package initialisers of imported packages (no effect on gkvlite's state)")
		return Val{K: VNone}, true
	}
	switch name {
	case "sync/atomic.LoadInt64", "sync/atomic.LoadUint64":
		x.useIntrinsic(name)
		elem := cc.Args[0].Type().Underlying().(*types.Pointer).Elem()
		return x.load(st, args[0], elem), true
	case "sync/atomic.StoreInt64", "sync/atomic.StoreUint64":
		x.useIntrinsic(name)
		elem := cc.Args[0].Type().Underlying().(*types.Pointer).Elem()
		x.storeTo(st, args[0], args[1], elem)
		return Val{K: VNone}, true
	case "sync/atomic.AddInt64", "sync/atomic.AddUint64":
		x.useIntrinsic(name)
		elem := cc.Args[0].Type().Underlying().(*types.Pointer).Elem()
		old := x.load(st, args[0], elem)
		nv := x.namedNoFacts(st, term(app("+", old.T, args[1].T), SInt, elem), "atomicadd")
		x.storeTo(st, args[0], nv, elem)
		return nv, true
	case "(encoding/binary.bigEndian).PutUint16":
		return x.putBE(st, args[1], args[2], 2, cc, pos), true
	case "(encoding/binary.bigEndian).PutUint32":
		return x.putBE(st, args[1], args[2], 4, cc, pos), true
	case "(encoding/binary.bigEndian).PutUint64":
		return x.putBE(st, args[1], args[2], 8, cc, pos), true
	case "(encoding/binary.bigEndian).Uint16":
		return x.getBE(st, args[1], 2, types.Typ[types.Uint16], cc, pos), true
	case "(encoding/binary.bigEndian).Uint32":
		return x.getBE(st, args[1], 4, types.Typ[types.Uint32], cc, pos), true
	case "(encoding/binary.bigEndian).Uint64":
		return x.getBE(st, args[1], 8, types.Typ[types.Uint64], cc, pos), true
	case "bytes.Equal":
		x.useIntrinsic(name)
		a, b := args[0], args[1]
		m := st.H("mem.byte", "(Array Int Int)")
		k := x.freshBound("k")
		r := x.fresh("beq", SBool)
		body := eq(sel(sel(m, app("sarr", a.T)), app("+", app("soff", a.T), k)), sel(sel(m, app("sarr", b.T)), app("+", app("soff", b.T), k)))
		st.assume(eq(r, and(eq(app("slen", a.T), app("slen", b.T)),
			"(forall (("+k+" Int)) (=> (and (<= 0 "+k+") (< "+k+" (slen "+a.T+"))) "+body+"))")))
		// comparison against a package constant of known length: also state the explicit
		// byte-by-byte meaning (an instance of the quantified definition, so no extra assumption)
		for side := 0; side < 2; side++ {
			n := x.constLenOfGlobal(cc.Args[side])
			if n <= 0 || n > 32 {
				continue
			}
			g, o := args[side], args[1-side]
			var cs []string
			cs = append(cs, eq(app("slen", o.T), num(int64(n))))
			for j := 0; j < n; j++ {
				cs = append(cs, eq(sel(sel(m, app("sarr", g.T)), app("+", app("soff", g.T), num(int64(j)))), sel(sel(m, app("sarr", o.T)), app("+", app("soff", o.T), num(int64(j))))))
			}
			st.assume(implies(eq(app("slen", g.T), num(int64(n))), eq(r, and(cs...))))
		}
		return term(r, SBool, types.Typ[types.Bool]), true
	case "errors.New", "fmt.Errorf":
		x.useIntrinsic(name)
		e := x.fresh("err", SInt)
		st.assume(app(">", e, "0"))
		return term(e, SInt, cc.Signature().Results().At(0).Type()), true
	case "fmt.Sprintf", "fmt.Sprint", "strconv.Itoa":
		x.useIntrinsic(name)
		s := x.fresh("str", SInt)
		st.assume(app(">=", s, "0"))
		st.assume(app(">=", app("strlen", s), "0"))
		return term(s, SInt, types.Typ[types.String]), true
	case "fmt.Printf", "fmt.Print", "fmt.Println":
		x.useIntrinsic(name)
		return x.symbolic(st, cc.Signature().Results(), "printf"), true
	case "log.Printf", "log.Println", "log.Print":
		x.useIntrinsic(name)
		return Val{K: VNone}, true
	case "(*sync.Mutex).Lock", "(*sync.RWMutex).Lock":
		x.useIntrinsic(name)
		return x.lockOp(st, args[0], 1, cc, pos), true
	case "(*sync.Mutex).Unlock", "(*sync.RWMutex).Unlock":
		x.useIntrinsic(name)
		return x.lockOp(st, args[0], -1, cc, pos), true
	case "(*sync.RWMutex).RLock":
		x.useIntrinsic(name)
		return x.lockOp(st, args[0], 1, cc, pos), true
	case "(*sync.RWMutex).RUnlock":
		x.useIntrinsic(name)
		return x.lockOp(st, args[0], -1, cc, pos), true
	case "math/rand.Int31":
		x.useIntrinsic(name)
		v := x.symbolic(st, types.Typ[types.Int32], "rand")
		st.assume(app(">=", v.T, "0"))
		return v, true
	case "math/rand.Int":
		x.useIntrinsic(name)
		v := x.symbolic(st, I, "rand")
		st.assume(app(">=", v.T, "0"))
		return v, true
	case "math/rand.Intn":
		x.useIntrinsic(name)
		x.safe(st, "panic", "rand.Intn(n<=0)", app(">", args[0].T, "0"), pos)
		v := x.symbolic(st, I, "rand")
		st.assume(and(app(">=", v.T, "0"), app("<", v.T, args[0].T)))
		return v, true
	case "bytes.NewBuffer":
		x.useIntrinsic(name)
		ref := x.allocRef(st, "buffer")
		st.setH("bytes.Buffer.buf", SSlice, store(st.H("bytes.Buffer.buf", SSlice), ref, args[0].T))
		st.setH("bytes.Buffer.off", SInt, store(st.H("bytes.Buffer.off", SInt), ref, "0"))
		return term(ref, SInt, cc.Signature().Results().At(0).Type()), true
	case "(*bytes.Buffer).Write":
		x.useIntrinsic(name)
		x.bufferAppend(st, args[0].T, args[1], cc.Args[1].Type())
		return Val{K: VTuple, Elems: []Val{term(app("slen", args[1].T), SInt, I), term("0", SInt, nil)}}, true
	case "(*bytes.Buffer).Bytes":
		x.useIntrinsic(name)
		buf := sel(st.H("bytes.Buffer.buf", SSlice), args[0].T)
		off := sel(st.H("bytes.Buffer.off", SInt), args[0].T)
		r := x.fresh("bufbytes", SSlice)
		st.assume(eq(r, app("mkslice", app("sarr", buf), app("+", app("soff", buf), off), app("-", app("slen", buf), off), app("-", app("scap", buf), off))))
		return term(r, SSlice, cc.Signature().Results().At(0).Type()), true
	case "encoding/binary.Write":
		return x.binaryWrite(st, args, cc, pos)
	case "encoding/binary.Read":
		return x.binaryRead(st, args, cc, pos)
	case "reflect.ValueOf", "(reflect.Value).Elem":
		x.useIntrinsic(name)
		return x.symbolic(st, cc.Signature().Results().At(0).Type(), "reflect"), true
	case "(reflect.Value).IsValid":
		x.useIntrinsic(name)
		return x.symbolic(st, types.Typ[types.Bool], "isvalid"), true
	}
	return Val{}, false
}

func (x *Exec) intrinsicInvoke(st *State, name string, recv Val, args []Val, cc *ssa.CallCommon, pos token.Pos) (Val, bool) {
	switch name {
	case "error.Error":
		s := x.fresh("errstr", SInt)
		st.assume(app(">=", s, "0"))
		return term(s, SInt, types.Typ[types.String]), true
	}
	return Val{}, false
}

// lockOp: ghost lock counts. `locks` maps a mutex reference to the number of holds by this call.
func (x *Exec) lockOp(st *State, m Val, delta int, cc *ssa.CallCommon, pos token.Pos) Val {
	x.safe(st, "nil", x.operandText(cc.Args[0])+" (mutex)", not(eq(m.T, "0")), pos)
	cur := st.G("locks")
	held := sel(cur, m.T)
	if delta > 0 {
		x.emit(st, "ghost", "lock.notheld@"+x.operandText(cc.Args[0]), eq(held, "0"), []string{"C05", "C18"}, "a mutex is not acquired while already held by the same call (self-deadlock)", pos)
		// lock order: every lock held now must be allowed before m (rank strictly smaller)
		st.setG("locks", store(cur, m.T, app("+", held, "1")))
	} else {
		x.emit(st, "ghost", "unlock.held@"+x.operandText(cc.Args[0]), app(">", held, "0"), []string{"C05", "C18"}, "a mutex is released only while held", pos)
		st.setG("locks", store(cur, m.T, app("-", held, "1")))
	}
	return Val{K: VNone}
}

func (x *Exec) putBE(st *State, b, v Val, n int, cc *ssa.CallCommon, pos token.Pos) Val {
	x.useIntrinsic("encoding/binary.BigEndian.PutUint")
	x.safe(st, "idx", x.operandText(cc.Args[1])+" (PutUint needs "+num(int64(n))+" bytes)", app(">=", app("slen", b.T), num(int64(n))), pos)
	m := st.H("mem.byte", "(Array Int Int)")
	content := sel(m, app("sarr", b.T))
	ds := x.digits(st, v.T, n)
	for k := 0; k < n; k++ {
		content = store(content, app("+", app("soff", b.T), num(int64(k))), ds[k])
	}
	st.setH("mem.byte", "(Array Int Int)", store(m, app("sarr", b.T), content))
	return Val{K: VNone}
}

// digits returns the n base-256 digits (most significant first) of v, which must lie in
// [0, 256^n): fresh byte constants with v = sum d_k * 256^(n-1-k). No div/mod is needed and
// the digits are uniquely determined, so this is a definition, not an assumption.
func (x *Exec) digits(st *State, v string, n int) []string {
	var ds, parts []string
	for k := 0; k < n; k++ {
		d := x.fresh("digit", SInt)
		st.assume(and(app("<=", "0", d), app("<", d, "256")))
		ds = append(ds, d)
		if n-1-k == 0 {
			parts = append(parts, d)
		} else {
			parts = append(parts, app("*", pow256(n-1-k), d))
		}
	}
	if n == 1 {
		st.assume(eq(v, parts[0]))
	} else {
		st.assume(eq(v, app("+", parts...)))
	}
	return ds
}

func (x *Exec) getBE(st *State, b Val, n int, t types.Type, cc *ssa.CallCommon, pos token.Pos) Val {
	x.useIntrinsic("encoding/binary.BigEndian.Uint")
	x.safe(st, "idx", x.operandText(cc.Args[1])+" (Uint needs "+num(int64(n))+" bytes)", app(">=", app("slen", b.T), num(int64(n))), pos)
	m := st.H("mem.byte", "(Array Int Int)")
	content := sel(m, app("sarr", b.T))
	var parts []string
	for k := 0; k < n; k++ {
		byteK := x.fresh("byte", SInt)
		st.assume(eq(byteK, sel(content, app("+", app("soff", b.T), num(int64(k))))))
		st.assume(and(app("<=", "0", byteK), app("<", byteK, "256")))
		if n-1-k == 0 {
			parts = append(parts, byteK)
		} else {
			parts = append(parts, app("*", pow256(n-1-k), byteK))
		}
	}
	r := x.fresh("be", SInt)
	st.assume(eq(r, app("+", parts...)))
	st.assume(rangeFact(t, r))
	return term(r, SInt, t)
}

// bufferAppend appends the bytes of slice p to the buffer object ref.
func (x *Exec) bufferAppend(st *State, ref string, p Val, pt types.Type) {
	bufH := st.H("bytes.Buffer.buf", SSlice)
	buf := sel(bufH, ref)
	m := st.H("mem.byte", "(Array Int Int)")
	newLen := app("+", app("slen", buf), app("slen", p.T))
	fits := app("<=", newLen, app("scap", buf))
	narr := x.allocRef(st, "bufgrown")
	ncap := x.fresh("ncap", SInt)
	st.assume(app(">=", ncap, newLen))
	r := x.fresh("buf", SSlice)
	st.assume(eq(r, ite(fits,
		app("mkslice", app("sarr", buf), app("soff", buf), newLen, app("scap", buf)),
		app("mkslice", narr, "0", newLen, ncap))))
	nc := x.fresh("bufcontent", "(Array Int Int)")
	k := x.freshBound("k")
	oldc := sel(m, app("sarr", buf))
	rOff := app("soff", r)
	addAt := sel(sel(m, app("sarr", p.T)), app("+", app("soff", p.T), app("-", k, rOff, app("slen", buf))))
	st.assume("(forall ((" + k + " Int)) (! (= (select " + nc + " " + k + ") " +
		ite(and(app("<=", app("+", rOff, app("slen", buf)), k), app("<", k, app("+", rOff, newLen))), addAt,
			ite(fits, sel(oldc, k), ite(and(app("<=", "0", k), app("<", k, app("slen", buf))), sel(oldc, app("+", app("soff", buf), k)), "0"))) +
		") :pattern ((select " + nc + " " + k + "))))")
	st.setH("mem.byte", "(Array Int Int)", store(m, app("sarr", r), nc))
	st.setH("bytes.Buffer.buf", SSlice, store(bufH, ref, r))
}

// fixedSize returns the encoded size of a fixed-size integer type for encoding/binary.
func fixedSize(t types.Type) (int, bool) {
	b, ok := t.Underlying().(*types.Basic)
	if !ok {
		return 0, false
	}
	switch b.Kind() {
	case types.Int8, types.Uint8:
		return 1, true
	case types.Int16, types.Uint16:
		return 2, true
	case types.Int32, types.Uint32:
		return 4, true
	case types.Int64, types.Uint64:
		return 8, true
	}
	return 0, false
}

// binaryWrite models binary.Write(buf *bytes.Buffer, BigEndian, v) for fixed-size integers.
func (x *Exec) binaryWrite(st *State, args []Val, cc *ssa.CallCommon, pos token.Pos) (Val, bool) {
	x.useIntrinsic("encoding/binary.Write")
	w, okw := cc.Args[0].(*ssa.MakeInterface)
	d, okd := cc.Args[2].(*ssa.MakeInterface)
	if !okw || !okd || !strings.HasSuffix(w.X.Type().String(), "bytes.Buffer") || !isBigEndian(cc.Args[1]) {
		return Val{}, false
	}
	n, ok := fixedSize(d.X.Type())
	if !ok {
		return Val{}, false
	}
	v := x.val(st, d.X)
	// unsigned image of the value
	u := v.T
	if lo, _, _ := intRange(d.X.Type()); lo != nil && lo.Sign() < 0 {
		u = ite(app(">=", v.T, "0"), v.T, app("+", v.T, pow256(n)))
	}
	// build n bytes in a fresh array and append
	arr := x.allocRef(st, "tmpbytes")
	content := "((as const (Array Int Int)) 0)"
	un := x.fresh("uimg", SInt)
	st.assume(eq(un, u))
	ds := x.digits(st, un, n)
	for k := 0; k < n; k++ {
		content = store(content, num(int64(k)), ds[k])
	}
	st.setH("mem.byte", "(Array Int Int)", store(st.H("mem.byte", "(Array Int Int)"), arr, content))
	tmp := x.fresh("tmp", SSlice)
	st.assume(eq(tmp, app("mkslice", arr, "0", num(int64(n)), num(int64(n)))))
	x.bufferAppend(st, x.val(st, w.X).T, term(tmp, SSlice, nil), nil)
	return term("0", SInt, cc.Signature().Results().At(0).Type()), true
}

func isBigEndian(v ssa.Value) bool {
	mi, ok := v.(*ssa.MakeInterface)
	if !ok {
		return false
	}
	return strings.HasSuffix(mi.X.Type().String(), "binary.bigEndian")
}

// binaryRead models binary.Read(buf *bytes.Buffer, BigEndian, &v) for fixed-size integers.
func (x *Exec) binaryRead(st *State, args []Val, cc *ssa.CallCommon, pos token.Pos) (Val, bool) {
	x.useIntrinsic("encoding/binary.Read")
	r, okr := cc.Args[0].(*ssa.MakeInterface)
	d, okd := cc.Args[2].(*ssa.MakeInterface)
	if !okr || !okd || !strings.HasSuffix(r.X.Type().String(), "bytes.Buffer") || !isBigEndian(cc.Args[1]) {
		return Val{}, false
	}
	pt, ok := d.X.Type().Underlying().(*types.Pointer)
	if !ok {
		return Val{}, false
	}
	n, ok := fixedSize(pt.Elem())
	if !ok {
		return Val{}, false
	}
	ref := x.val(st, r.X).T
	bufH := st.H("bytes.Buffer.buf", SSlice)
	offH := st.H("bytes.Buffer.off", SInt)
	buf := sel(bufH, ref)
	off := sel(offH, ref)
	enough := app(">=", app("-", app("slen", buf), off), num(int64(n)))
	errv := x.fresh("rderr", SInt)
	st.assume(app(">=", errv, "0"))
	st.assume(eq(eq(errv, "0"), enough))
	m := st.H("mem.byte", "(Array Int Int)")
	content := sel(m, app("sarr", buf))
	var parts []string
	for k := 0; k < n; k++ {
		byteK := x.fresh("byte", SInt)
		st.assume(eq(byteK, sel(content, app("+", app("soff", buf), off, num(int64(k))))))
		st.assume(and(app("<=", "0", byteK), app("<", byteK, "256")))
		if n-1-k == 0 {
			parts = append(parts, byteK)
		} else {
			parts = append(parts, app("*", pow256(n-1-k), byteK))
		}
	}
	u := app("+", parts...)
	val := u
	if lo, _, _ := intRange(pt.Elem()); lo != nil && lo.Sign() < 0 {
		half := pow256(n)
		// two's complement
		val = ite(app(">=", u, app("div", half, "2")), app("-", u, half), u)
	}
	dst := x.val(st, d.X)
	old := x.load(st, dst, pt.Elem())
	nv := x.namedNoFacts(st, term(ite(enough, val, old.T), SInt, pt.Elem()), "binread")
	x.storeTo(st, dst, nv, pt.Elem())
	st.setH("bytes.Buffer.off", SInt, store(st.H("bytes.Buffer.off", SInt), ref, ite(enough, app("+", off, num(int64(n))), app("slen", buf))))
	return term(errv, SInt, cc.Signature().Results().At(0).Type()), true
}

// constLenOfGlobal: if v is a load of package variable G and the contract file has a
// global invariant with the conjunct `len(G) == N`, return N.
func (x *Exec) constLenOfGlobal(v ssa.Value) int {
	u, ok := v.(*ssa.UnOp)
	if !ok || u.Op != token.MUL {
		return 0
	}
	g, ok := u.X.(*ssa.Global)
	if !ok {
		return 0
	}
	var find func(e Expr) int
	find = func(e Expr) int {
		b, ok := e.(*EBinary)
		if !ok {
			return 0
		}
		if b.Op == "&&" {
			if n := find(b.X); n > 0 {
				return n
			}
			return find(b.Y)
		}
		if b.Op == "==" {
			if c, ok := b.X.(*ECall); ok && c.Fun == "len" && len(c.Args) == 1 {
				if id, ok := c.Args[0].(*EIdent); ok && id.Name == g.Name() {
					if nn, ok := b.Y.(*ENum); ok {
						return int(nn.V.Int64())
					}
				}
			}
		}
		return 0
	}
	for _, gi := range x.v.cf.Globals {
		if n := find(gi.E); n > 0 {
			return n
		}
	}
	return 0
}
