package main

// Contract expression language: lexer, parser, AST.
//
// Grammar (lowest to highest precedence):
//   quant   ::= ('forall'|'exists') ident {',' ident} ['in' e '..' e] '::' quant | iff
//   iff     ::= impl { '<==>' impl }
//   impl    ::= cond [ '==>' impl ]                 (right assoc)
//   cond    ::= or [ '?' quant ':' cond ]
//   or      ::= and { '||' and }
//   and     ::= cmp { '&&' cmp }
//   cmp     ::= add [ ('=='|'!='|'<'|'<='|'>'|'>=') add ]
//   add     ::= mul { ('+'|'-') mul }
//   mul     ::= unary { ('*'|'/'|'%') unary }
//   unary   ::= ('!'|'-'|'&') unary | postfix
//   postfix ::= primary { '.' ident | '[' quant ']' | '(' args ')' }
//   primary ::= ident | number | string | '(' quant ')' | 'old' '(' quant ')'

import (
	"fmt"
	"math/big"
	"strings"
)

type Expr interface{}

type EIdent struct{ Name string }
type ENum struct{ V *big.Int }
type EStr struct{ S string }
type EUnary struct {
	Op string
	X  Expr
}
type EBinary struct {
	Op   string
	X, Y Expr
}
type ECond struct{ C, A, B Expr }
type ECall struct {
	Fun  string
	Args []Expr
}
type EIndex struct{ X, I Expr }
type ESel struct {
	X    Expr
	Name string
}
type EQuant struct {
	All    bool
	Vars   []string
	Types  []string // optional Go type of each bound variable ("*node"), "" for Int
	Pats   [][]Expr // optional triggers: each {e1, e2} group is one multi-pattern
	Lo, Hi Expr // optional range for the (single) variable: Lo <= v < Hi
	Body   Expr
}
type EOld struct{ X Expr }

type tok struct {
	kind string // id num str op eof
	s    string
}

type lexer struct {
	src  string
	pos  int
	toks []tok
}

func lex(src string) ([]tok, error) {
	var toks []tok
	i := 0
	ops := []string{"{", "}", "<==>", "==>", "::", "..", "&&", "||", "==", "!=", "<=", ">=", "<", ">", "+", "-", "*", "/", "%", "!", "&", "(", ")", "[", "]", ",", ".", "?", ":"}
	for i < len(src) {
		c := src[i]
		if c == ' ' || c == '\t' || c == '\n' {
			i++
			continue
		}
		if c == '"' {
			j := i + 1
			for j < len(src) && src[j] != '"' {
				j++
			}
			if j >= len(src) {
				return nil, fmt.Errorf("unterminated string")
			}
			toks = append(toks, tok{"str", src[i+1 : j]})
			i = j + 1
			continue
		}
		if c >= '0' && c <= '9' {
			j := i
			for j < len(src) && (isAlnum(src[j])) {
				j++
			}
			toks = append(toks, tok{"num", src[i:j]})
			i = j
			continue
		}
		if isAlpha(c) {
			j := i
			for j < len(src) && (isAlnum(src[j]) || src[j] == '$' || src[j] == '\'') {
				j++
			}
			toks = append(toks, tok{"id", src[i:j]})
			i = j
			continue
		}
		matched := false
		for _, op := range ops {
			if strings.HasPrefix(src[i:], op) {
				toks = append(toks, tok{"op", op})
				i += len(op)
				matched = true
				break
			}
		}
		if !matched {
			return nil, fmt.Errorf("unexpected character %q at %d in %q", c, i, src)
		}
	}
	toks = append(toks, tok{"eof", ""})
	return toks, nil
}

func isAlpha(c byte) bool { return c == '_' || (c >= 'a' && c <= 'z') || (c >= 'A' && c <= 'Z') }
func isAlnum(c byte) bool { return isAlpha(c) || (c >= '0' && c <= '9') }

type parser struct {
	toks []tok
	p    int
}

func parseExpr(src string) (e Expr, err error) {
	toks, err := lex(src)
	if err != nil {
		return nil, err
	}
	ps := &parser{toks: toks}
	defer func() {
		if r := recover(); r != nil {
			if pe, ok := r.(parseErr); ok {
				err = fmt.Errorf("%s in %q", string(pe), src)
				return
			}
			panic(r)
		}
	}()
	e = ps.quant()
	if ps.peek().kind != "eof" {
		ps.fail("trailing tokens at %q", ps.peek().s)
	}
	return e, nil
}

type parseErr string

func (ps *parser) fail(f string, a ...interface{}) { panic(parseErr(fmt.Sprintf(f, a...))) }
func (ps *parser) peek() tok                      { return ps.toks[ps.p] }
func (ps *parser) next() tok                      { t := ps.toks[ps.p]; ps.p++; return t }
func (ps *parser) isOp(s string) bool               { t := ps.peek(); return t.kind == "op" && t.s == s }
func (ps *parser) isId(s string) bool               { t := ps.peek(); return t.kind == "id" && t.s == s }
func (ps *parser) expectOp(s string) {
	if !ps.isOp(s) {
		ps.fail("expected %q, got %q", s, ps.peek().s)
	}
	ps.p++
}

func (ps *parser) quant() Expr {
	if ps.isId("forall") || ps.isId("exists") {
		all := ps.next().s == "forall"
		var vars, types []string
		for {
			t := ps.next()
			if t.kind != "id" {
				ps.fail("expected bound variable, got %q", t.s)
			}
			vars = append(vars, t.s)
			ty := ""
			if ps.isOp(":") {
				ps.p++
				if ps.isOp("*") {
					ps.p++
					ty = "*"
				}
				tt := ps.next()
				if tt.kind != "id" {
					ps.fail("expected type name, got %q", tt.s)
				}
				ty += tt.s
			}
			types = append(types, ty)
			if ps.isOp(",") {
				ps.p++
				continue
			}
			break
		}
		q := &EQuant{All: all, Vars: vars, Types: types}
		for ps.isOp("{") {
			ps.p++
			var grp []Expr
			for {
				grp = append(grp, ps.cond())
				if ps.isOp(",") {
					ps.p++
					continue
				}
				break
			}
			ps.expectOp("}")
			q.Pats = append(q.Pats, grp)
		}
		if ps.isId("in") {
			ps.p++
			q.Lo = ps.add()
			if ps.isOp("..") {
				ps.p++
				q.Hi = ps.add()
			}
		}
		ps.expectOp("::")
		q.Body = ps.quant()
		return q
	}
	return ps.iff()
}

func (ps *parser) iff() Expr {
	x := ps.impl()
	for ps.isOp("<==>") {
		ps.p++
		y := ps.impl()
		x = &EBinary{"<==>", x, y}
	}
	return x
}

func (ps *parser) impl() Expr {
	x := ps.cond()
	if ps.isOp("==>") {
		ps.p++
		var y Expr
		if ps.isId("forall") || ps.isId("exists") {
			y = ps.quant()
		} else {
			y = ps.impl()
		}
		return &EBinary{"==>", x, y}
	}
	return x
}

func (ps *parser) cond() Expr {
	c := ps.or()
	if ps.isOp("?") {
		ps.p++
		a := ps.quant()
		ps.expectOp(":")
		b := ps.cond()
		return &ECond{c, a, b}
	}
	return c
}

func (ps *parser) or() Expr {
	x := ps.and()
	for ps.isOp("||") {
		ps.p++
		x = &EBinary{"||", x, ps.and()}
	}
	return x
}

func (ps *parser) and() Expr {
	x := ps.cmp()
	for ps.isOp("&&") {
		ps.p++
		if ps.isId("forall") || ps.isId("exists") {
			x = &EBinary{"&&", x, ps.quant()}
			return x
		}
		x = &EBinary{"&&", x, ps.cmp()}
	}
	return x
}

func (ps *parser) cmp() Expr {
	x := ps.add()
	for _, op := range []string{"==", "!=", "<=", ">=", "<", ">"} {
		if ps.isOp(op) {
			ps.p++
			y := ps.add()
			return &EBinary{op, x, y}
		}
	}
	return x
}

func (ps *parser) add() Expr {
	x := ps.mul()
	for ps.isOp("+") || ps.isOp("-") {
		op := ps.next().s
		x = &EBinary{op, x, ps.mul()}
	}
	return x
}

func (ps *parser) mul() Expr {
	x := ps.unary()
	for ps.isOp("*") || ps.isOp("/") || ps.isOp("%") {
		op := ps.next().s
		x = &EBinary{op, x, ps.unary()}
	}
	return x
}

func (ps *parser) unary() Expr {
	if ps.isOp("!") || ps.isOp("-") || ps.isOp("&") {
		op := ps.next().s
		return &EUnary{op, ps.unary()}
	}
	return ps.postfix()
}

func (ps *parser) postfix() Expr {
	x := ps.primary()
	for {
		switch {
		case ps.isOp("."):
			ps.p++
			t := ps.next()
			if t.kind != "id" {
				ps.fail("expected field name after '.', got %q", t.s)
			}
			x = &ESel{x, t.s}
		case ps.isOp("["):
			ps.p++
			i := ps.quant()
			ps.expectOp("]")
			x = &EIndex{x, i}
		case ps.isOp("("):
			// call: only on (possibly dotted) identifiers
			name := dottedName(x)
			if name == "" {
				ps.fail("call of non-identifier")
			}
			ps.p++
			var args []Expr
			if !ps.isOp(")") {
				for {
					args = append(args, ps.quant())
					if ps.isOp(",") {
						ps.p++
						continue
					}
					break
				}
			}
			ps.expectOp(")")
			if name == "old" {
				if len(args) != 1 {
					ps.fail("old takes one argument")
				}
				x = &EOld{args[0]}
			} else {
				x = &ECall{name, args}
			}
		default:
			return x
		}
	}
}

func dottedName(x Expr) string {
	switch v := x.(type) {
	case *EIdent:
		return v.Name
	case *ESel:
		b := dottedName(v.X)
		if b == "" {
			return ""
		}
		return b + "." + v.Name
	}
	return ""
}

func (ps *parser) primary() Expr {
	t := ps.next()
	switch t.kind {
	case "id":
		return &EIdent{t.s}
	case "num":
		v := new(big.Int)
		s := strings.ReplaceAll(t.s, "_", "")
		if _, ok := v.SetString(s, 0); !ok {
			ps.fail("bad number %q", t.s)
		}
		return &ENum{v}
	case "str":
		return &EStr{t.s}
	case "op":
		if t.s == "(" {
			e := ps.quant()
			ps.expectOp(")")
			return e
		}
	}
	ps.fail("unexpected token %q", t.s)
	return nil
}

func exprString(e Expr) string {
	switch v := e.(type) {
	case *EIdent:
		return v.Name
	case *ENum:
		return v.V.String()
	case *EStr:
		return fmt.Sprintf("%q", v.S)
	case *EUnary:
		return v.Op + exprString(v.X)
	case *EBinary:
		return "(" + exprString(v.X) + " " + v.Op + " " + exprString(v.Y) + ")"
	case *ECond:
		return "(" + exprString(v.C) + " ? " + exprString(v.A) + " : " + exprString(v.B) + ")"
	case *ECall:
		var a []string
		for _, x := range v.Args {
			a = append(a, exprString(x))
		}
		return v.Fun + "(" + strings.Join(a, ", ") + ")"
	case *EIndex:
		return exprString(v.X) + "[" + exprString(v.I) + "]"
	case *ESel:
		return exprString(v.X) + "." + v.Name
	case *EQuant:
		q := "exists"
		if v.All {
			q = "forall"
		}
		r := ""
		if v.Lo != nil {
			r = " in " + exprString(v.Lo) + ".." + exprString(v.Hi)
		}
		return "(" + q + " " + strings.Join(v.Vars, ",") + r + " :: " + exprString(v.Body) + ")"
	case *EOld:
		return "old(" + exprString(v.X) + ")"
	}
	return "?"
}
