package main

// Contract file parser. Contracts are structured comments (`//@ ...`) in
// /repo/contracts_verif.go (build tag verif, comment-only). Blocks:
//
//   //@ func <FullName>                      contract of a function of the package (keyed by name)
//   //@ interface <Type>.<Method>(p, q) (r, err)   contract of an interface method (trusted: A5)
//   //@ extern <pkg.Func or (pkg.T).M>(a, b) (r)   contract of a library function (trusted: A6-A8)
//   //@ functype <Type>(a, b) (r)            contract of a function-typed value (A9-A11)
//   //@ global <expr>                        invariant over package-level variables (proved for init, assumed elsewhere)
//   //@ ghost <name> <Sort>                  ghost state component
//
// Clauses inside a block:
//   props C14 C02                 properties this function's safety/frame obligations are reported under
//   requires [tags] label: expr
//   ensures  [tags] label: expr
//   modifies target, target...    targets: x.f | T.f | content(b) | ghost g | alloc
//   decreases expr
//   loop N invariant [tags] label: expr | loop N decreases expr | loop N modifies targets
//   inline | trusted | overflow | nosafety
//   from: text                    provenance note (copied to evidence)

import (
	"bufio"
	"fmt"
	"os"
	"regexp"
	"strconv"
	"strings"
)

type Clause struct {
	Kind  string // requires ensures invariant
	Tags  []string
	Label string
	Src   string
	E     Expr
	Line  int
}

type LoopSpec struct {
	Invs      []*Clause
	Decreases Expr
	DecSrc    string
	Modifies  []string
	HasMod    bool
}

type Contract struct {
	Kind     string // func interface extern functype
	Name     string
	Params   []string // for interface/extern/functype
	Results  []string
	Props    []string
	Requires []*Clause
	Ensures  []*Clause
	Captures []*Clause // closure invariants over captured variables (checked at MakeClosure, assumed at entry, re-proved at exit)
	Tracks   *Clause   // definition of this closure's visitor invariant vinv(self, z)
	Relies   []*Clause // data-structure invariants assumed at entry and NOT asserted at call sites (rely/guarantee; listed in evidence)
	After    map[string][]*Clause // call site (callee.ordinal) -> facts assumed right after that call (separation facts the logic cannot express; every use is listed in evidence)
	Proves   []*Clause // proved for the body but not exported to callers (internal facts that would clash with an assumed abstraction such as allocator freshness)
	Postulates []*Clause // assumed at call sites, not proved for the body (ghost accounting attached to a wrapper)
	Modifies []string
	HasMod   bool
	Decr     Expr
	DecrSrc  string
	Loops    map[int]*LoopSpec
	Inline   bool
	Trusted  bool
	Overflow bool
	NoSafety bool
	LockExempt bool // calls through this contract are allowed while gkvlite locks are held (documented exception)
	From     []string
	Line     int
	Text     string // raw text of the block (for hashing)
}

type GhostDecl struct {
	Name string
	Sort string
	Init string
}

type GlobalInv struct {
	Src  string
	E    Expr
	Tags []string
	Line int
}

type ContractFile struct {
	Funcs      map[string]*Contract
	Interfaces map[string]*Contract
	Externs    map[string]*Contract
	FuncTypes  map[string]*Contract
	Globals    []*GlobalInv
	Ghosts     []*GhostDecl
	Order      []*Contract
}

var clauseKeywords = map[string]bool{"func": true, "interface": true, "extern": true, "functype": true, "global": true, "ghost": true,
	"props": true, "requires": true, "relies": true, "captures": true, "tracks": true, "ensures": true, "proves": true, "postulate": true, "after": true, "modifies": true, "loop": true, "decreases": true, "inline": true,
	"trusted": true, "overflow": true, "nosafety": true, "lockexempt": true, "from:": true, "end": true}

var tagRe = regexp.MustCompile(`^\[([A-Za-z0-9_, ]+)\]\s*`)
var labelRe = regexp.MustCompile(`^([A-Za-z][A-Za-z0-9_.\-]*):\s+`)

func parseContractFile(path string) (*ContractFile, error) {
	f, err := os.Open(path)
	if err != nil {
		return nil, err
	}
	defer f.Close()
	cf := &ContractFile{Funcs: map[string]*Contract{}, Interfaces: map[string]*Contract{}, Externs: map[string]*Contract{}, FuncTypes: map[string]*Contract{}}
	type rawClause struct {
		text string
		line int
	}
	var raws []rawClause
	sc := bufio.NewScanner(f)
	sc.Buffer(make([]byte, 1<<20), 1<<20)
	ln := 0
	for sc.Scan() {
		ln++
		line := sc.Text()
		t := strings.TrimSpace(line)
		if !strings.HasPrefix(t, "//@") {
			continue
		}
		body := strings.TrimSpace(strings.TrimPrefix(t, "//@"))
		if body == "" {
			continue
		}
		// strip trailing comments introduced by " // "
		if i := strings.Index(body, " // "); i >= 0 {
			body = strings.TrimSpace(body[:i])
		}
		first := strings.Fields(body)[0]
		if clauseKeywords[first] {
			raws = append(raws, rawClause{body, ln})
		} else {
			if len(raws) == 0 {
				return nil, fmt.Errorf("%s:%d: continuation without clause", path, ln)
			}
			raws[len(raws)-1].text += " " + body
		}
	}
	var cur *Contract
	for _, rc := range raws {
		fields := strings.Fields(rc.text)
		kw := fields[0]
		rest := strings.TrimSpace(strings.TrimPrefix(rc.text, kw))
		fail := func(f string, a ...interface{}) error {
			return fmt.Errorf("%s:%d: %s", path, rc.line, fmt.Sprintf(f, a...))
		}
		if cur != nil {
			cur.Text += rc.text + "\n"
		}
		switch kw {
		case "func", "interface", "extern", "functype":
			c := &Contract{Kind: kw, Loops: map[int]*LoopSpec{}, Line: rc.line, Text: rc.text + "\n"}
			if kw == "func" {
				c.Name = rest
				if _, dup := cf.Funcs[c.Name]; dup {
					return nil, fail("duplicate contract for %s", c.Name)
				}
				cf.Funcs[c.Name] = c
			} else {
				name, ps, rs, err := parseSig(rest)
				if err != nil {
					return nil, fail("%v", err)
				}
				c.Name, c.Params, c.Results = name, ps, rs
				switch kw {
				case "interface":
					cf.Interfaces[name] = c
				case "extern":
					cf.Externs[name] = c
					c.Trusted = true
				case "functype":
					cf.FuncTypes[name] = c
				}
			}
			cf.Order = append(cf.Order, c)
			cur = c
		case "end":
			cur = nil
		case "global":
			tags, _, src := splitTagsLabel(rest)
			e, err := parseExpr(src)
			if err != nil {
				return nil, fail("%v", err)
			}
			cf.Globals = append(cf.Globals, &GlobalInv{Src: src, E: e, Tags: tags, Line: rc.line})
		case "ghost":
			if len(fields) < 3 {
				return nil, fail("ghost needs name and sort")
			}
			g := &GhostDecl{Name: fields[1]}
			restg := strings.TrimSpace(strings.TrimPrefix(rest, fields[1]))
			if i := strings.Index(restg, ":="); i >= 0 {
				g.Sort = strings.TrimSpace(restg[:i])
				g.Init = strings.TrimSpace(restg[i+2:])
			} else {
				g.Sort = restg
			}
			cf.Ghosts = append(cf.Ghosts, g)
		default:
			if cur == nil {
				return nil, fail("clause %q outside a block", kw)
			}
			switch kw {
			case "props":
				cur.Props = append(cur.Props, fields[1:]...)
			case "requires", "ensures", "postulate", "relies", "proves", "captures":
				tags, label, src := splitTagsLabel(rest)
				e, err := parseExpr(src)
				if err != nil {
					return nil, fail("%v", err)
				}
				cl := &Clause{Kind: kw, Tags: tags, Label: label, Src: src, E: e, Line: rc.line}
				if kw == "requires" {
					cur.Requires = append(cur.Requires, cl)
				} else if kw == "captures" {
					// an invariant of a closure over the variables it captured: asserted in the enclosing
					// function where the closure is made, assumed at the closure's entry, re-proved at its exit
					cur.Captures = append(cur.Captures, cl)
					keep := *cl
					keep.Kind = "ensures"
					if keep.Label != "" {
						keep.Label = "keeps-" + keep.Label
					}
					cur.Ensures = append(cur.Ensures, &keep)
				} else if kw == "relies" {
					cur.Relies = append(cur.Relies, cl)
				} else if kw == "proves" {
					cur.Proves = append(cur.Proves, cl)
				} else if kw == "postulate" {
					cur.Postulates = append(cur.Postulates, cl)
				} else {
					cur.Ensures = append(cur.Ensures, cl)
				}
			case "tracks":
				// the visitor invariant of this closure: vinv(self, z) is DEFINED as this expression (over the
				// captured cells, vis.n, vis.stop and the logical parameter z)
				e, err := parseExpr(rest)
				if err != nil {
					return nil, fail("%v", err)
				}
				cur.Tracks = &Clause{Kind: "tracks", Src: rest, E: e, Line: rc.line}
			case "modifies":
				cur.HasMod = true
				cur.Modifies = append(cur.Modifies, splitTargets(rest)...)
			case "decreases":
				e, err := parseExpr(rest)
				if err != nil {
					return nil, fail("%v", err)
				}
				cur.Decr, cur.DecrSrc = e, rest
			case "loop":
				if len(fields) < 3 {
					return nil, fail("bad loop clause")
				}
				n, err := strconv.Atoi(fields[1])
				if err != nil {
					return nil, fail("bad loop ordinal")
				}
				ls := cur.Loops[n]
				if ls == nil {
					ls = &LoopSpec{}
					cur.Loops[n] = ls
				}
				sub := fields[2]
				r2 := strings.TrimSpace(strings.TrimPrefix(strings.TrimSpace(strings.TrimPrefix(rest, fields[1])), sub))
				switch sub {
				case "invariant":
					tags, label, src := splitTagsLabel(r2)
					e, err := parseExpr(src)
					if err != nil {
						return nil, fail("%v", err)
					}
					ls.Invs = append(ls.Invs, &Clause{Kind: "invariant", Tags: tags, Label: label, Src: src, E: e, Line: rc.line})
				case "decreases":
					e, err := parseExpr(r2)
					if err != nil {
						return nil, fail("%v", err)
					}
					ls.Decreases, ls.DecSrc = e, r2
				case "modifies":
					ls.HasMod = true
					ls.Modifies = append(ls.Modifies, splitTargets(r2)...)
				default:
					return nil, fail("bad loop clause kind %q", sub)
				}
			case "after":
				// after <callee>.<k> assumes <expr>          (separation fact / ghost definition, listed as an assumption)
				// after <callee>.<k> asserts [tags] name: <expr>   (obligation at that program point)
				// after <callee>.<k> sets <ghost> := <expr>   (ghost assignment)
				kind, idx, kw := "", -1, ""
				for _, k := range []string{"assumes", "asserts", "sets"} {
					if j := strings.Index(rest, " "+k+" "); j >= 0 && (idx < 0 || j < idx) {
						kind, idx, kw = k, j, " "+k+" "
					}
				}
				if idx < 0 {
					return nil, fail("bad after clause")
				}
				site := strings.TrimSpace(rest[:idx])
				src := strings.TrimSpace(rest[idx+len(kw):])
				cl := &Clause{Kind: "after", Line: rc.line}
				switch kind {
				case "sets":
					j := strings.Index(src, ":=")
					if j < 0 {
						return nil, fail("bad after ... sets clause")
					}
					cl.Kind = "after.sets"
					cl.Label = strings.TrimSpace(src[:j])
					src = strings.TrimSpace(src[j+2:])
				case "asserts":
					cl.Kind = "after.asserts"
					tags, label, r3 := splitTagsLabel(src)
					cl.Tags, cl.Label, src = tags, label, r3
				}
				e, err := parseExpr(src)
				if err != nil {
					return nil, fail("%v", err)
				}
				cl.Src, cl.E = src, e
				if cur.After == nil {
					cur.After = map[string][]*Clause{}
				}
				cur.After[site] = append(cur.After[site], cl)
			case "inline":
				cur.Inline = true
			case "trusted":
				cur.Trusted = true
			case "overflow":
				cur.Overflow = true
			case "nosafety":
				cur.NoSafety = true
			case "lockexempt":
				cur.LockExempt = true
			case "from:":
				cur.From = append(cur.From, rest)
			}
		}
	}
	return cf, nil
}

func splitTagsLabel(s string) (tags []string, label, rest string) {
	s = strings.TrimSpace(s)
	if m := tagRe.FindStringSubmatch(s); m != nil {
		for _, t := range strings.Split(m[1], ",") {
			t = strings.TrimSpace(t)
			if t != "" {
				tags = append(tags, t)
			}
		}
		s = s[len(m[0]):]
	}
	if m := labelRe.FindStringSubmatch(s); m != nil {
		label = m[1]
		s = s[len(m[0]):]
	}
	return tags, label, s
}

// splitTargets splits a comma-separated target list, respecting parentheses.
func splitTargets(s string) []string {
	var out []string
	depth := 0
	cur := ""
	for _, c := range s {
		switch c {
		case '(', '[':
			depth++
		case ')', ']':
			depth--
		}
		if c == ',' && depth == 0 {
			if t := strings.TrimSpace(cur); t != "" {
				out = append(out, t)
			}
			cur = ""
			continue
		}
		cur += string(c)
	}
	if t := strings.TrimSpace(cur); t != "" {
		out = append(out, t)
	}
	return out
}

var sigRe = regexp.MustCompile(`^(.*?)\(([^()]*)\)\s*(?:\(([^()]*)\))?$`)

// parseSig parses `Name(p, q) (r, err)`; Name may itself contain parentheses
// as in `(encoding/binary.bigEndian).PutUint32`.
func parseSig(s string) (name string, params, results []string, err error) {
	s = strings.TrimSpace(s)
	// find the parameter list: the last or second-to-last parenthesised group
	groups := [][2]int{}
	depth := 0
	start := -1
	for i, c := range s {
		if c == '(' {
			if depth == 0 {
				start = i
			}
			depth++
		} else if c == ')' {
			depth--
			if depth == 0 {
				groups = append(groups, [2]int{start, i})
			}
		}
	}
	if len(groups) == 0 {
		return "", nil, nil, fmt.Errorf("bad signature %q", s)
	}
	// results group present if the last group is preceded (ignoring spaces) by ')'
	last := groups[len(groups)-1]
	pi := len(groups) - 1
	if len(groups) >= 2 {
		prev := groups[len(groups)-2]
		between := strings.TrimSpace(s[prev[1]+1 : last[0]])
		if between == "" {
			// two adjacent groups: (params) (results)
			pi = len(groups) - 2
			results = splitNames(s[last[0]+1 : last[1]])
		}
	}
	pg := groups[pi]
	params = splitNames(s[pg[0]+1 : pg[1]])
	name = strings.TrimSpace(s[:pg[0]])
	if name == "" {
		return "", nil, nil, fmt.Errorf("bad signature %q", s)
	}
	return name, params, results, nil
}

func splitNames(s string) []string {
	var out []string
	for _, p := range strings.Split(s, ",") {
		p = strings.TrimSpace(p)
		if p != "" {
			out = append(out, p)
		}
	}
	return out
}
