package main

import (
	"bytes"
	"context"
	"crypto/sha256"
	"encoding/hex"
	"fmt"
	"os"
	"os/exec"
	"path/filepath"
	"strings"
	"sync"
	"time"
)

type solverSpec struct {
	name string
	bin  string
	args func(timeoutS int) []string
	prep func(script string) string
}

func stripZ3Options(s string) string {
	var out []string
	for _, l := range strings.Split(s, "\n") {
		if strings.HasPrefix(l, "(set-option :smt.") || strings.HasPrefix(l, "(set-option :timeout") {
			continue
		}
		out = append(out, l)
	}
	return strings.Join(out, "\n")
}

var solvers = []solverSpec{
	{"z3-new", "z3-new", func(t int) []string { return []string{fmt.Sprintf("-T:%d", t)} }, func(s string) string { return s }},
	{"z3", "z3", func(t int) []string { return []string{fmt.Sprintf("-T:%d", t)} }, func(s string) string { return s }},
	{"cvc5", "cvc5", func(t int) []string { return []string{fmt.Sprintf("--tlimit=%d", t*1000), "--lang=smt2"} },
		func(s string) string { return "(set-logic ALL)\n" + stripZ3Options(s) }},
}

type solveResult struct {
	status string // unsat sat unknown timeout error
	solver string
	ms     int64
	output string
}

func runSolver(sp solverSpec, path string, script string, timeoutS int) solveResult {
	return runSolverCtx(context.Background(), sp, path, script, timeoutS)
}

func runSolverCtx(parent context.Context, sp solverSpec, path string, script string, timeoutS int) solveResult {
	p := path + "." + sp.name + ".smt2"
	if err := os.WriteFile(p, []byte(sp.prep(script)), 0644); err != nil {
		return solveResult{status: "error", solver: sp.name, output: err.Error()}
	}
	ctx, cancel := context.WithTimeout(parent, time.Duration(timeoutS+5)*time.Second)
	defer cancel()
	cmd := exec.CommandContext(ctx, sp.bin, append(sp.args(timeoutS), p)...)
	var out bytes.Buffer
	cmd.Stdout = &out
	cmd.Stderr = &out
	t0 := time.Now()
	_ = cmd.Run()
	ms := time.Since(t0).Milliseconds()
	txt := out.String()
	first := strings.TrimSpace(strings.SplitN(txt, "\n", 2)[0])
	st := "unknown"
	switch first {
	case "unsat":
		st = "unsat"
	case "sat":
		st = "sat"
	case "unknown":
		st = "unknown"
	case "timeout":
		st = "timeout"
	default:
		if ctx.Err() != nil {
			st = "timeout"
		} else if strings.Contains(txt, "error") || strings.Contains(txt, "Error") {
			st = "error"
		}
	}
	if len(txt) > 2000 {
		txt = txt[:2000]
	}
	return solveResult{status: st, solver: sp.name, ms: ms, output: txt}
}

// runSolverArgs runs a solver with explicit arguments (used for quick feasibility queries).
func runSolverArgs(sp solverSpec, path, script string, args []string) solveResult {
	p := path + "." + sp.name + ".smt2"
	if err := os.WriteFile(p, []byte(sp.prep(script)), 0644); err != nil {
		return solveResult{status: "error"}
	}
	ctx, cancel := context.WithTimeout(context.Background(), 5*time.Second)
	defer cancel()
	out, _ := exec.CommandContext(ctx, sp.bin, append(args, p)...).CombinedOutput()
	first := strings.TrimSpace(strings.SplitN(string(out), "\n", 2)[0])
	if first != "unsat" && first != "sat" {
		first = "unknown"
	}
	return solveResult{status: first, solver: sp.name}
}

type solveStats struct {
	mu        sync.Mutex
	byBackend map[string]int
	totalMs   int64
	queries   int
	sessions  int
}

func (s *solveStats) note(r solveResult) {
	s.mu.Lock()
	s.totalMs += r.ms
	s.queries++
	s.mu.Unlock()
}

func setStatus(o *Obligation, r solveResult, stats *solveStats) {
	o.Solver = r.solver
	o.Ms = r.ms
	o.Output = r.output
	switch {
	case r.status == "error" && o.Expect == "unsat":
		o.Status = "error"
	case o.Expect == "unsat" && r.status == "unsat":
		o.Status = "proved"
	case o.Expect == "unsat" && r.status == "sat":
		o.Status = "failed"
	case o.Expect == "sat" && r.status == "unsat":
		o.Status = "vacuous"
	case o.Expect == "sat":
		o.Status = "proved" // satisfiable, or not refuted
		if r.status != "sat" {
			o.Output = "not refuted (" + r.status + ")"
		}
	default:
		o.Status = "unknown"
	}
	if o.Status == "proved" {
		stats.mu.Lock()
		stats.byBackend[r.solver]++
		stats.mu.Unlock()
	}
}

// standalone discharges one obligation with the solver portfolio (non-incremental scripts).
func standalone(o *Obligation, workdir string, timeoutS int, thorough bool, stats *solveStats) {
	script := o.script()
	h := sha256.Sum256([]byte(script))
	path := filepath.Join(workdir, hex.EncodeToString(h[:10]))
	var results []solveResult
	first := timeoutS
	if first > 3 && !thorough {
		first = 3
	}
	r := runSolver(solvers[0], path, script, first)
	stats.note(r)
	results = append(results, r)
	final := r
	definite := r.status == "unsat" || r.status == "sat"
	if (!definite && o.Expect == "unsat") || thorough {
		ch := make(chan solveResult, len(solvers))
		cctx, ccancel := context.WithCancel(context.Background())
		for _, sp := range solvers {
			go func(sp solverSpec) { ch <- runSolverCtx(cctx, sp, path+"b", script, timeoutS) }(sp)
		}
		for range solvers {
			r2 := <-ch
			stats.note(r2)
			results = append(results, r2)
			if (r2.status == "unsat" || r2.status == "sat") && !(final.status == "unsat" || final.status == "sat") {
				final = r2
				if !thorough {
					break
				}
			}
		}
		ccancel()
	}
	if thorough {
		seen := map[string]string{}
		for _, r := range results {
			if r.status == "sat" || r.status == "unsat" {
				seen[r.status] = r.solver
			}
		}
		if len(seen) == 2 {
			final = solveResult{status: "error", solver: "disagreement", output: fmt.Sprintf("solvers disagree: sat by %s, unsat by %s", seen["sat"], seen["unsat"])}
		}
	}
	setStatus(o, final, stats)
}

// solveGroups discharges all obligations: one incremental z3 session per group first,
// then the portfolio on whatever the session left open.
func solveGroups(groups []*Group, tainted []*Obligation, workdir string, timeoutS int, workers int, thorough bool) *solveStats {
	stats := &solveStats{byBackend: map[string]int{}}
	os.MkdirAll(workdir, 0755)
	for _, o := range tainted {
		o.Status = "undecided"
		o.Output = "path left the supported subset: " + o.Tainted
	}
	var pending []*Obligation
	var pmu sync.Mutex
	jobs := make(chan *Group)
	var wg sync.WaitGroup
	perCheckMs := 3000
	for w := 0; w < workers; w++ {
		wg.Add(1)
		go func() {
			defer wg.Done()
			for g := range jobs {
				// syntactic goals need no solver
				var need []*Obligation
				for _, o := range g.Obls {
					if o.Expect == "unsat" && o.Goal == "true" {
						o.Status, o.Solver = "proved", "syntactic"
						stats.mu.Lock()
						stats.byBackend["syntactic"]++
						stats.mu.Unlock()
					} else {
						need = append(need, o)
					}
				}
				if len(need) == 0 {
					continue
				}
				sub := &Group{x: g.x, Obls: need}
				script := sub.script(perCheckMs)
				h := sha256.Sum256([]byte(script))
				path := filepath.Join(workdir, "g"+hex.EncodeToString(h[:10]))
				total := len(need)*perCheckMs/1000 + 10
				t0 := time.Now()
				r := runSolverRaw(solvers[0], path, script, total)
				ms := time.Since(t0).Milliseconds()
				stats.mu.Lock()
				stats.sessions++
				stats.totalMs += ms
				stats.queries += len(need)
				stats.mu.Unlock()
				lines := []string{}
				for _, l := range strings.Split(r, "\n") {
					l = strings.TrimSpace(l)
					if l == "sat" || l == "unsat" || l == "unknown" || l == "timeout" {
						lines = append(lines, l)
					}
				}
				for k, o := range need {
					st := "unknown"
					if k < len(lines) {
						st = lines[k]
					}
					accept := false
					if o.Expect == "sat" {
						accept = true // vacuity guards: sat, unknown (not refuted) or unsat (vacuous) are all final
					} else if st == "unsat" && !thorough {
						accept = true
					}
					if accept {
						setStatus(o, solveResult{status: st, solver: "z3-new", ms: ms / int64(len(need))}, stats)
						continue
					}
					pmu.Lock()
					pending = append(pending, o)
					pmu.Unlock()
				}
			}
		}()
	}
	for _, g := range groups {
		jobs <- g
	}
	close(jobs)
	wg.Wait()
	// second stage: standalone portfolio
	jobs2 := make(chan *Obligation)
	var wg2 sync.WaitGroup
	for w := 0; w < workers; w++ {
		wg2.Add(1)
		go func() {
			defer wg2.Done()
			for o := range jobs2 {
				standalone(o, workdir, timeoutS, thorough, stats)
			}
		}()
	}
	// when very many obligations are left open (a heavily changed or broken tree) only the first ones get the
	// full portfolio; the rest keep the session's verdict -- the run reports violations either way and stays bounded
	const maxRetried = 160
	for k, o := range pending {
		if k >= maxRetried {
			o.Status, o.Solver, o.Output = "unknown", "z3-new", "left open by the incremental session; not retried standalone (more than 160 open obligations in this run)"
			continue
		}
		jobs2 <- o
	}
	close(jobs2)
	wg2.Wait()
	return stats
}

// runSolverRaw runs a (multi check-sat) script and returns the raw output.
func runSolverRaw(sp solverSpec, path, script string, timeoutS int) string {
	p := path + "." + sp.name + ".smt2"
	if err := os.WriteFile(p, []byte(sp.prep(script)), 0644); err != nil {
		return ""
	}
	ctx, cancel := context.WithTimeout(context.Background(), time.Duration(timeoutS+5)*time.Second)
	defer cancel()
	cmd := exec.CommandContext(ctx, sp.bin, append(sp.args(timeoutS), p)...)
	var out bytes.Buffer
	cmd.Stdout = &out
	cmd.Stderr = &out
	_ = cmd.Run()
	return out.String()
}

// solveResults: convenience for callers holding FuncResults.
func solveResults(results []*FuncResult, keep func(*Obligation) bool, workdir string, timeoutS int, workers int, thorough bool) (*solveStats, []*Obligation) {
	var groups []*Group
	var tainted, all []*Obligation
	for _, r := range results {
		for _, o := range r.Obls {
			if keep != nil && !keep(o) {
				continue
			}
			all = append(all, o)
			if o.Tainted != "" {
				tainted = append(tainted, o)
			}
		}
		for _, g := range r.Groups {
			ng := &Group{x: g.x}
			for _, o := range g.Obls {
				if keep == nil || keep(o) {
					ng.Obls = append(ng.Obls, o)
				}
			}
			if len(ng.Obls) > 0 {
				groups = append(groups, ng)
			}
		}
	}
	stats := solveGroups(groups, tainted, workdir, timeoutS, workers, thorough)
	recheckAfterFailures(all, workdir, timeoutS, stats)
	return stats, all
}

// recheckAfterFailures: goals are assumed once asserted (assert-then-assume). An obligation that was
// proved downstream of a goal that did NOT get proved is re-solved without that goal among its
// hypotheses, so that one failure cannot hide another one behind an inconsistent assumption.
func recheckAfterFailures(all []*Obligation, workdir string, timeoutS int, stats *solveStats) {
	var failed []*Obligation
	for _, o := range all {
		if o.Status != "proved" && o.Kind != "cover" && o.goalNode != nil {
			failed = append(failed, o)
		}
	}
	if len(failed) == 0 {
		return
	}
	for _, p := range all {
		if p.Status != "proved" || p.Kind == "cover" || p.x == nil {
			continue
		}
		drop := map[*factNode]bool{}
		for _, f := range failed {
			if f.x == p.x && f != p && f.goalNode.n <= nodeN(p.pre) && isAncestor(f.goalNode, p.pre) {
				drop[f.goalNode] = true
			}
		}
		if len(drop) == 0 {
			continue
		}
		var facts []string
		for n := p.pre; n != nil; n = n.prev {
			if !drop[n] {
				facts = append(facts, n.line)
			}
		}
		for i, j := 0, len(facts)-1; i < j; i, j = i+1, j-1 {
			facts[i], facts[j] = facts[j], facts[i]
		}
		q := *p
		q.Facts = facts
		q.Script = p.x.script(&q)
		q.Status = ""
		standalone(&q, workdir, timeoutS, false, stats)
		if q.Status != "proved" {
			p.Status = "unknown"
			p.Blocked = "held only with an unproved earlier obligation of the same path as hypothesis"
			p.Output = p.Blocked + "; without it: " + q.Output
			p.Solver = q.Solver
		}
	}
}

func nodeN(n *factNode) int {
	if n == nil {
		return -1
	}
	return n.n
}

// modelFor re-runs a failed obligation asking for a model; quantified facts are kept
// first, and dropped in a second attempt (a candidate model for replay only).
func modelFor(o *Obligation, workdir string) string {
	script := o.script()
	withModel := func(s string) string {
		s = strings.Replace(s, "(set-option :smt.mbqi false)\n", "", 1)
		return "(set-option :produce-models true)\n" + strings.Replace(s, "(check-sat)\n", "(check-sat)\n(get-model)\n", 1)
	}
	h := sha256.Sum256([]byte(script))
	path := filepath.Join(workdir, "m"+hex.EncodeToString(h[:10]))
	r := runSolver(solvers[0], path, withModel(script), 10)
	if r.status == "sat" {
		return r.output
	}
	// relaxed: drop quantified assertions
	var keep []string
	for _, l := range strings.Split(script, "\n") {
		if strings.HasPrefix(l, "(assert") && strings.Contains(l, "(forall ") {
			continue
		}
		keep = append(keep, l)
	}
	r2 := runSolver(solvers[0], path+"r", withModel(strings.Join(keep, "\n")), 10)
	if r2.status == "sat" {
		return "; candidate model (quantified facts dropped)\n" + r2.output
	}
	return r.output
}
