package main

import (
	"bytes"
	"context"
	"crypto/sha256"
	"encoding/hex"
	"fmt"
	"os"
	"os/exec"
	"path/filepath"
	"strings"
	"sync"
	"time"
)

type solverSpec struct {
	name string
	bin  string
	args func(timeoutS int) []string
	prep func(script string) string
}

func stripZ3Options(s string) string {
	var out []string
	for _, l := range strings.Split(s, "\n") {
		if strings.HasPrefix(l, "(set-option :smt.") {
			continue
		}
		out = append(out, l)
	}
	return strings.Join(out, "\n")
}

var solvers = []solverSpec{
	{"z3-new", "z3-new", func(t int) []string { return []string{fmt.Sprintf("-T:%d", t)} }, func(s string) string { return s }},
	{"z3", "z3", func(t int) []string { return []string{fmt.Sprintf("-T:%d", t)} }, func(s string) string { return s }},
	{"cvc5", "cvc5", func(t int) []string { return []string{fmt.Sprintf("--tlimit=%d", t*1000), "--lang=smt2"} },
		func(s string) string { return "(set-logic ALL)\n" + stripZ3Options(s) }},
}

type solveResult struct {
	status string // unsat sat unknown timeout error
	solver string
	ms     int64
	output string
}

func runSolver(sp solverSpec, path string, script string, timeoutS int) solveResult {
	return runSolverCtx(context.Background(), sp, path, script, timeoutS)
}

func runSolverCtx(parent context.Context, sp solverSpec, path string, script string, timeoutS int) solveResult {
	p := path + "." + sp.name + ".smt2"
	if err := os.WriteFile(p, []byte(sp.prep(script)), 0644); err != nil {
		return solveResult{status: "error", solver: sp.name, output: err.Error()}
	}
	ctx, cancel := context.WithTimeout(parent, time.Duration(timeoutS+5)*time.Second)
	defer cancel()
	cmd := exec.CommandContext(ctx, sp.bin, append(sp.args(timeoutS), p)...)
	var out bytes.Buffer
	cmd.Stdout = &out
	cmd.Stderr = &out
	t0 := time.Now()
	_ = cmd.Run()
	ms := time.Since(t0).Milliseconds()
	txt := out.String()
	first := strings.TrimSpace(strings.SplitN(txt, "\n", 2)[0])
	st := "unknown"
	switch first {
	case "unsat":
		st = "unsat"
	case "sat":
		st = "sat"
	case "unknown":
		st = "unknown"
	case "timeout":
		st = "timeout"
	default:
		if ctx.Err() != nil {
			st = "timeout"
		} else if strings.Contains(txt, "error") || strings.Contains(txt, "Error") {
			st = "error"
		}
	}
	if len(txt) > 2000 {
		txt = txt[:2000]
	}
	return solveResult{status: st, solver: sp.name, ms: ms, output: txt}
}

type solveStats struct {
	mu        sync.Mutex
	byBackend map[string]int
	totalMs   int64
	queries   int
}

// solveAll discharges obligations in parallel. quick: z3-new then (on unknown) z3 and cvc5.
func solveAll(obls []*Obligation, workdir string, timeoutS int, workers int, thorough bool) *solveStats {
	stats := &solveStats{byBackend: map[string]int{}}
	os.MkdirAll(workdir, 0755)
	type cacheEnt struct {
		once sync.Once
		res  solveResult
		all  []solveResult
	}
	var cmu sync.Mutex
	cache := map[string]*cacheEnt{}
	jobs := make(chan *Obligation)
	var wg sync.WaitGroup
	for w := 0; w < workers; w++ {
		wg.Add(1)
		go func() {
			defer wg.Done()
			for o := range jobs {
				if o.Tainted != "" {
					o.Status = "undecided"
					o.Output = "path left the supported subset: " + o.Tainted
					continue
				}
				if o.Expect == "unsat" && o.Goal == "true" {
					o.Status = "proved"
					o.Solver = "syntactic"
					stats.mu.Lock()
					stats.byBackend["syntactic"]++
					stats.mu.Unlock()
					continue
				}
				h := sha256.Sum256([]byte(o.Script))
				key := hex.EncodeToString(h[:10])
				cmu.Lock()
				ce := cache[key]
				if ce == nil {
					ce = &cacheEnt{}
					cache[key] = ce
				}
				cmu.Unlock()
				ce.once.Do(func() {
					path := filepath.Join(workdir, key)
					var results []solveResult
					final := solveResult{status: "unknown"}
					note := func(r solveResult) {
						results = append(results, r)
						stats.mu.Lock()
						stats.totalMs += r.ms
						stats.queries++
						stats.mu.Unlock()
					}
					// stage 1: z3-new with a short limit
					first := timeoutS
					if first > 3 && !thorough {
						first = 3
					}
					r := runSolver(solvers[0], path, o.Script, first)
					note(r)
					final = r
					definite := r.status == "unsat" || r.status == "sat"
					if (!definite && o.Expect == "unsat") || thorough {
						// stage 2: all solvers concurrently with the full limit
						ch := make(chan solveResult, len(solvers))
						cctx, ccancel := context.WithCancel(context.Background())
						for _, sp := range solvers {
							go func(sp solverSpec) { ch <- runSolverCtx(cctx, sp, path+"b", o.Script, timeoutS) }(sp)
						}
						for range solvers {
							r2 := <-ch
							note(r2)
							if (r2.status == "unsat" || r2.status == "sat") && !(final.status == "unsat" || final.status == "sat") {
								final = r2
								if !thorough {
									break
								}
							}
						}
						ccancel()
					}
					if thorough {
						seen := map[string]string{}
						for _, r := range results {
							if r.status == "sat" || r.status == "unsat" {
								seen[r.status] = r.solver
							}
						}
						if len(seen) == 2 {
							final = solveResult{status: "error", solver: "disagreement", output: fmt.Sprintf("solvers disagree: sat by %s, unsat by %s", seen["sat"], seen["unsat"])}
						}
					}
					ce.res = final
					ce.all = results
				})
				r := ce.res
				o.Solver = r.solver
				o.Ms = r.ms
				o.Output = r.output
				switch {
				case r.status == "error" && o.Expect == "unsat":
					o.Status = "error"
				case o.Expect == "unsat" && r.status == "unsat":
					o.Status = "proved"
				case o.Expect == "unsat" && r.status == "sat":
					o.Status = "failed"
				case o.Expect == "sat" && r.status == "unsat":
					o.Status = "vacuous"
				case o.Expect == "sat":
					o.Status = "proved" // sat or not refuted
					if r.status != "sat" {
						o.Output = "not refuted (" + r.status + ")"
					}
				default:
					o.Status = "unknown"
				}
				if o.Status == "proved" {
					stats.mu.Lock()
					stats.byBackend[r.solver]++
					stats.mu.Unlock()
				}
			}
		}()
	}
	for _, o := range obls {
		jobs <- o
	}
	close(jobs)
	wg.Wait()
	return stats
}

// modelFor re-runs a failed obligation asking for a model.
func modelFor(o *Obligation, workdir string) string {
	script := strings.Replace(o.Script, "(check-sat)\n", "(check-sat)\n(get-model)\n", 1)
	script = "(set-option :produce-models true)\n" + script
	h := sha256.Sum256([]byte(script))
	path := filepath.Join(workdir, "m"+hex.EncodeToString(h[:10]))
	r := runSolver(solvers[0], path, script, 20)
	return r.output
}
