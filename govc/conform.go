package main

import (
	"fmt"
	"os"
	"go/token"
	"go/types"
	"sort"
	"strings"

	"golang.org/x/tools/go/ssa"
)

// Conformance of function values with the function-type contracts they are used under.
//
// A callee that takes a function-typed parameter is verified against that parameter's function-type
// contract (functype ...). A closure (or function constant) of the package that is HANDED to such a
// parameter must therefore satisfy that contract. This is not taken on trust: for every such use found in
// the SSA of the package, the function value's own verification gets
//   - conform@<functype>.<label> obligations: every `ensures` clause of the function-type contract, evaluated
//     over the function's own parameters and results (self = the function value), at every return;
//   - conform-pre@<functype>.<k> obligations: every conjunct of the function's own `requires` that mentions a
//     parameter or the ghost state must follow from the function-type contract's `requires`;
//   - closure-pre@<closure>.<k> obligations in the ENCLOSING function, where the closure is made: the
//     conjuncts of its `requires` that speak about captured variables only;
//   - a name-level check that the ghost variables the function may modify are among those the
//     function-type contract lists (other arrays are havocked at the call site, see escapeHavoc).

type conformTo struct {
	ftName string
	ft     *Contract
}

func (v *Verifier) buildConformance() {
	v.conforms = map[string][]conformTo{}
	seen := map[string]bool{}
	var names []string
	for n := range v.funcs {
		names = append(names, n)
	}
	sort.Strings(names)
	for _, n := range names {
		fn := v.funcs[n]
		for _, b := range fn.Blocks {
			for _, ins := range b.Instrs {
				var cc *ssa.CallCommon
				switch i := ins.(type) {
				case *ssa.Call:
					cc = &i.Call
				case *ssa.Defer:
					cc = &i.Call
				case *ssa.Go:
					cc = &i.Call
				}
				if cc == nil || cc.IsInvoke() {
					continue
				}
				callee := cc.StaticCallee()
				if callee == nil {
					continue
				}
				for k, a := range cc.Args {
					f := funcValueOf(a)
					if f == nil || v.funcs[shortName(f)] == nil {
						continue
					}
					if k >= len(callee.Params) {
						continue
					}
					p := callee.Params[k]
					ftName := ""
					if nt, ok := p.Type().(*types.Named); ok && v.cf.FuncTypes[nt.Obj().Name()] != nil {
						ftName = nt.Obj().Name()
					} else if v.cf.FuncTypes[shortName(callee)+"."+p.Name()] != nil {
						ftName = shortName(callee) + "." + p.Name()
					}
					if ftName == "" {
						continue
					}
					key := shortName(f) + "|" + ftName
					if seen[key] {
						continue
					}
					seen[key] = true
					v.conforms[shortName(f)] = append(v.conforms[shortName(f)], conformTo{ftName, v.cf.FuncTypes[ftName]})
					if os.Getenv("GOVC_CONFORM") != "" {
						c := v.cf.Funcs[shortName(f)]
						state := "verified against it"
						if c == nil || c.Inline {
							state = "NOT verified as a function (no contract of its own)"
						}
						fmt.Fprintf(os.Stderr, "CONFORM %s used as %s in %s: %s\n", shortName(f), ftName, n, state)
					}
				}
			}
		}
	}
}

// funcValueOf: the package function a value statically denotes (closure or function constant), through conversions.
func funcValueOf(a ssa.Value) *ssa.Function {
	for {
		switch x := a.(type) {
		case *ssa.ChangeType:
			a = x.X
			continue
		case *ssa.MakeClosure:
			return x.Fn.(*ssa.Function)
		case *ssa.Function:
			return x
		}
		return nil
	}
}

func conjuncts(e Expr) []Expr {
	if b, ok := e.(*EBinary); ok && b.Op == "&&" {
		return append(conjuncts(b.X), conjuncts(b.Y)...)
	}
	return []Expr{e}
}

// identsOf collects the identifiers an expression mentions (bound variables included; harmless here).
func identsOf(e Expr, out map[string]bool) {
	switch v := e.(type) {
	case *EIdent:
		out[v.Name] = true
	case *EUnary:
		identsOf(v.X, out)
	case *EBinary:
		identsOf(v.X, out)
		identsOf(v.Y, out)
	case *ECond:
		identsOf(v.C, out)
		identsOf(v.A, out)
		identsOf(v.B, out)
	case *ECall:
		for _, a := range v.Args {
			identsOf(a, out)
		}
	case *EIndex:
		identsOf(v.X, out)
		identsOf(v.I, out)
	case *ESel:
		identsOf(v.X, out)
	case *EQuant:
		identsOf(v.Body, out)
		if v.Lo != nil {
			identsOf(v.Lo, out)
		}
		if v.Hi != nil {
			identsOf(v.Hi, out)
		}
	case *EOld:
		identsOf(v.X, out)
	}
}

// captureOnly: the conjunct speaks about captured variables only (no parameter, no ghost or global state name).
func captureOnly(e Expr, fn *ssa.Function) bool {
	ids := map[string]bool{}
	identsOf(e, ids)
	free := map[string]bool{}
	for _, fv := range fn.FreeVars {
		free[fv.Name()] = true
	}
	n := 0
	for id := range ids {
		if id == "nil" || id == "true" || id == "false" {
			continue
		}
		if !free[id] {
			return false
		}
		n++
	}
	return n > 0
}

// conformEntry: obligations at the entry of a function value's verification (requires side).
func (x *Exec) conformEntry(st *State, fn *ssa.Function, con *Contract) {
	if con == nil {
		return
	}
	for _, c := range x.v.conforms[shortName(fn)] {
		st2 := st.clone()
		env := x.conformEnv(st2, fn, c.ft, Val{})
		for _, rq := range c.ft.Requires {
			if g, err := env.evalBool(rq.E); err == nil {
				st2.assume(g)
			} else {
				x.errorf("%s: requires %q of %s: %v", shortName(fn), rq.Src, c.ftName, err)
			}
		}
		own := x.envFor(st2)
		// what holds of the captured variables by construction / by the enclosing function (checked there)
		var rest []*Clause
		var restE []Expr
		for _, rq := range con.Requires {
			for _, cj := range conjuncts(rq.E) {
				if captureOnly(cj, fn) {
					if g, err := own.evalBool(cj); err == nil {
						st2.assume(g)
					}
				} else {
					rest = append(rest, rq)
					restE = append(restE, cj)
				}
			}
		}
		for _, cl := range con.Captures {
			if g, err := own.evalBool(cl.E); err == nil {
				st2.assume(g)
			}
		}
		for k, cj := range restE {
			g, err := own.evalBool(cj)
			if err != nil {
				x.errorf("%s: requires %q: %v", shortName(fn), rest[k].Src, err)
				continue
			}
			x.emit(st2, "pre", fmt.Sprintf("conform-pre@%s.%d", c.ftName, k), g, x.tagsOf(rest[k].Tags),
				"the function's own precondition follows from the contract of the function type it is used under ("+c.ftName+"): "+exprString(cj), fn.Pos())
		}
		// heap frame, by array: a location-specific target of the function must lie in an array the function-type
		// contract lists (for closures every such array is havocked where the closure is handed over, see escapeHavoc,
		// so the check concerns function constants only)
		if ownTs, err := own.evalTargets(con.Modifies); err == nil && len(fn.FreeVars) == 0 {
			ftArr := map[string]bool{}
			if ftTs, err2 := env.evalTargets(c.ft.Modifies); err2 == nil {
				for _, t := range ftTs {
					ftArr[t.array] = true
				}
			}
			captured := map[string]bool{}
			for _, b := range st.top().bind {
				if b.K == VTerm {
					captured[b.T] = true
				}
			}
			for _, t := range ownTs {
				if t.ghost || t.whole || t.fresh || strings.HasPrefix(t.array, "cell.") || ftArr[t.array] || captured[t.ref] {
					continue
				}
				x.errorf("%s may modify %s at a location that the contract of %s (under which it is used) does not cover", shortName(fn), t.array, c.ftName)
			}
		}
		// ghost frame, by name
		ftGhost := map[string]bool{}
		for _, m := range c.ft.Modifies {
			m = strings.TrimSpace(m)
			if strings.HasPrefix(m, "ghost ") {
				ftGhost[strings.TrimSpace(strings.TrimPrefix(m, "ghost "))] = true
			}
		}
		for _, m := range con.Modifies {
			m = strings.TrimSpace(m)
			if strings.HasPrefix(m, "ghost ") {
				g := strings.TrimSpace(strings.TrimPrefix(m, "ghost "))
				if !ftGhost[g] {
					x.errorf("%s may modify ghost %s, which the contract of %s (under which it is used) does not list", shortName(fn), g, c.ftName)
				}
			}
		}
	}
}

// conformEnv binds the function-type contract's names to the function's own parameters and results.
func (x *Exec) conformEnv(st *State, fn *ssa.Function, ft *Contract, res Val) *Env {
	env := x.envFor(st)
	env.old = st.entry
	for k, pn := range ft.Params {
		if k < len(fn.Params) && pn != "" && pn != "_" {
			env.vars[pn] = x.val(st, fn.Params[k])
		}
	}
	if x.selfTerm != "" {
		env.vars["self"] = term(x.selfTerm, SInt, fn.Signature)
	} else {
		env.vars["self"] = Val{K: VFunc, Fn: fn, Ty: fn.Type(), T: num(int64(x.v.funcID(shortName(fn)))), S: SInt}
	}
	switch {
	case res.K == VTuple:
		for k, rn := range ft.Results {
			if k < len(res.Elems) && rn != "" {
				env.vars[rn] = res.Elems[k]
			}
		}
	case res.K != VNone && res.K != 0 || res.T != "":
		if len(ft.Results) > 0 && ft.Results[0] != "" {
			env.vars[ft.Results[0]] = res
		}
	}
	return env
}

// conformFinish: obligations at a return of a function value's verification (ensures side).
func (x *Exec) conformFinish(st *State, fn *ssa.Function, res Val, pos token.Pos) {
	for _, c := range x.v.conforms[shortName(fn)] {
		env := x.conformEnv(st, fn, c.ft, res)
		for k, en := range c.ft.Ensures {
			g, err := env.evalBool(en.E)
			if err != nil {
				x.errorf("%s: ensures %q of %s: %v", shortName(fn), en.Src, c.ftName, err)
				continue
			}
			tags := en.Tags
			x.emit(st, "post", "conform@"+c.ftName+"."+clauseName(en, k), g, x.tagsOf(tags),
				"clause of the function-type contract "+c.ftName+" under which this function value is used: "+en.Src, pos)
		}
	}
}
