package main

// Replay of failed obligations against the real code.
//
// A replay file is a JSON document naming the failed obligation, the violated
// clause, the path, the solver's verdict and model, and the in-package Go test
// (from /verif/govc/replay/*.go, injected with `go test -overlay`, nothing is
// written into /repo) that exercises the real function on the model's values
// and on a small fixed corpus around them.

import (
	"encoding/json"
	"fmt"
	"os"
	"os/exec"
	"path/filepath"
	"regexp"
	"strings"
	"time"

	"golang.org/x/tools/go/ssa"
)

func callCommonOf(ins ssa.Instruction) *ssa.CallCommon {
	switch c := ins.(type) {
	case *ssa.Call:
		return &c.Call
	case *ssa.Defer:
		return &c.Call
	case *ssa.Go:
		return &c.Call
	}
	return nil
}

type ReplayFile struct {
	Property   string            `json:"property"`
	Obligation string            `json:"obligation"`
	Function   string            `json:"function"`
	Kind       string            `json:"kind"`
	Clause     string            `json:"clause"`
	Position   string            `json:"position,omitempty"`
	Path       string            `json:"path"`
	Status     string            `json:"verifier_status"`
	Solver     string            `json:"solver"`
	Output     string            `json:"verifier_output"`
	Model      map[string]string `json:"model,omitempty"`
	Test       string            `json:"replay_test,omitempty"`
	Cmd        string            `json:"replay_cmd,omitempty"`
	TestOutput string            `json:"replay_output,omitempty"`
	Reproduced bool              `json:"reproduced"`
	Note       string            `json:"note"`
	Repo       string            `json:"repo"`
}

type replayResult struct {
	path       string
	reproduced bool
}

var modelLineRe = regexp.MustCompile(`\(define-fun\s+(\|[^|]+\||\S+)\s+\(\)\s+(Int|Bool)\s+(\(-\s+\d+\)|-?\d+|true|false)\)`)

// parseModel extracts the scalar constants of a z3 model: name (without the !k suffix) -> value.
func parseModel(out string) map[string]string {
	m := map[string]string{}
	flat := strings.Join(strings.Fields(out), " ")
	for _, mm := range modelLineRe.FindAllStringSubmatch(flat, -1) {
		name := strings.Trim(mm[1], "|")
		val := strings.ReplaceAll(strings.ReplaceAll(strings.ReplaceAll(mm[3], "(- ", "-"), ")", ""), " ", "")
		if i := strings.LastIndex(name, "!"); i > 0 {
			base := name[:i]
			if _, dup := m[base]; !dup {
				m[base] = val
			}
		}
		m[name] = val
	}
	return m
}

// replayTestFor maps a function under contract to the replay test that exercises its contract.
func replayTestFor(fn string) string {
	r := strings.NewReplacer("(", "", ")", "", "*", "", ".", "_", "$", "_")
	return "TestReplay_" + r.Replace(fn)
}

func replaySupportDir() string {
	if d := os.Getenv("GOVC_REPLAY_DIR"); d != "" {
		return d
	}
	return "/verif/govc/replay"
}

// availableReplayTests lists the test functions defined in the replay support files.
func availableReplayTests() map[string]bool {
	out := map[string]bool{}
	files, _ := filepath.Glob(filepath.Join(replaySupportDir(), "*.go"))
	re := regexp.MustCompile(`(?m)^func (TestReplay_[A-Za-z0-9_]+)\(`)
	for _, f := range files {
		b, err := os.ReadFile(f)
		if err != nil {
			continue
		}
		for _, m := range re.FindAllStringSubmatch(string(b), -1) {
			out[m[1]] = true
		}
	}
	return out
}

// runReplayTest runs one replay test against repo with the support files overlaid.
func runReplayTest(repo, test string, model map[string]string, work string) (string, bool, string) {
	os.MkdirAll(work, 0755)
	files, _ := filepath.Glob(filepath.Join(replaySupportDir(), "*.go"))
	ov := map[string]map[string]string{"Replace": {}}
	for _, f := range files {
		ov["Replace"][filepath.Join(repo, "zz_govc_"+filepath.Base(f))] = f
	}
	ovPath := filepath.Join(work, fmt.Sprintf("overlay-%d.json", time.Now().UnixNano()))
	b, _ := json.Marshal(ov)
	os.WriteFile(ovPath, b, 0644)
	mj, _ := json.Marshal(model)
	cmdline := fmt.Sprintf("cd %s && GOVC_MODEL='%s' go test -overlay %s -vet=off -count=1 -timeout 60s -run '^%s$' .", repo, string(mj), ovPath, test)
	cmd := exec.Command("go", "test", "-overlay", ovPath, "-vet=off", "-count=1", "-timeout", "60s", "-run", "^"+test+"$", ".")
	cmd.Dir = repo
	cmd.Env = append(os.Environ(), "GOFLAGS=-mod=mod", "GOPROXY=off", "GOSUMDB=off", "GOTOOLCHAIN=local", "GOVC_MODEL="+string(mj))
	out, err := cmd.CombinedOutput()
	txt := string(out)
	if len(txt) > 6000 {
		txt = txt[:3000] + "\n...\n" + txt[len(txt)-3000:]
	}
	// reproduced iff the test ran and failed (a build failure is not a reproduction)
	failed := err != nil && (strings.Contains(txt, "--- FAIL") || strings.Contains(txt, "panic:") || strings.Contains(txt, "test timed out")) && !strings.Contains(txt, "[build failed]")
	return txt, failed, cmdline
}

// per-run caches: a replay test is run once per function, candidate models are computed for the first few
// failed obligations only (each costs up to 20 s of solver time)
var replayCache = map[string][3]string{}
var modelsComputed int

func writeReplay(dir, prop string, a *AggObl, v *Verifier, work, repo string) replayResult {
	os.MkdirAll(dir, 0755)
	rf := &ReplayFile{Property: prop, Obligation: a.Name, Function: a.Func, Kind: a.Kind, Clause: a.Src, Position: a.Pos, Path: a.Path,
		Status: a.Status, Solver: a.Solver, Output: a.Output, Repo: repo}
	if a.failing != nil && (a.Status == "failed" || (a.Status == "unknown" && modelsComputed < 3)) && a.failing.x != nil {
		modelsComputed++
		// a model of the negated VC, or -- when the quantified facts keep the solver from answering "sat" -- a
		// candidate model of the quantifier-free part (values to start a manual reproduction from; not validated)
		mo := modelFor(a.failing, work)
		rf.Model = parseModel(mo)
		if len(mo) > 4000 {
			mo = mo[:4000] + "\n..."
		}
		if a.Status == "failed" || len(rf.Model) > 0 {
			rf.Output = a.Output + "\n" + mo
		}
	}
	test := replayTestFor(a.Func)
	if availableReplayTests()[test] {
		var out, cmdline string
		var failed bool
		if c, ok := replayCache[test]; ok {
			out, cmdline, failed = c[0], c[1], c[2] == "failed"
		} else {
			out, failed, cmdline = runReplayTest(repo, test, rf.Model, work)
			st := "passed"
			if failed {
				st = "failed"
			}
			replayCache[test] = [3]string{out, cmdline, st}
		}
		rf.Test, rf.Cmd, rf.TestOutput, rf.Reproduced = test, cmdline, out, failed
		if failed {
			rf.Note = "the replay test exercises the real function on the verifier's model values and a fixed corpus around them, and evaluates the violated contract at run time; it FAILED on this tree"
		} else {
			rf.Note = "the replay test did not reproduce the violation on the real code with the model's values or the corpus: no-failing-input-found"
		}
	} else {
		rf.Note = "no replay harness exists for this function; the obligation was discharged on the delivered tree and is not any more: no-failing-input-found"
	}
	name := strings.NewReplacer("(", "", ")", "", "*", "", "/", "_", " ", "_", "#", "-", "@", "-", "$", "_", "[", "", "]", "", ":", "").Replace(a.Name)
	if len(name) > 120 {
		name = name[:120]
	}
	path := filepath.Join(dir, prop+"-"+name+".json")
	writeJSON(path, rf)
	return replayResult{path: path, reproduced: rf.Reproduced}
}

func cmdReplay(args []string) int {
	if len(args) < 1 {
		usage()
	}
	b, err := os.ReadFile(args[0])
	if err != nil {
		fmt.Fprintln(os.Stderr, err)
		return 2
	}
	if strings.Contains(string(b), `"kind": "bounded"`) {
		return replayBounded(args[0], b)
	}
	var rf ReplayFile
	if err := json.Unmarshal(b, &rf); err != nil {
		fmt.Fprintln(os.Stderr, err)
		return 2
	}
	fmt.Printf("obligation: %s\nclause: %s\npath: %s\nverifier: %s (%s)\n", rf.Obligation, rf.Clause, rf.Path, rf.Status, rf.Solver)
	if rf.Test == "" {
		fmt.Println("no replay test for this obligation (no-failing-input-found); verifier output:")
		fmt.Println(rf.Output)
		return 1
	}
	repo := "/repo"
	work := filepath.Join("/verif/.work", fmt.Sprintf("replay-%d", os.Getpid()))
	defer os.RemoveAll(work)
	out, failed, cmdline := runReplayTest(repo, rf.Test, rf.Model, work)
	fmt.Println(cmdline)
	fmt.Println(out)
	if failed {
		fmt.Printf("VIOLATION property=%s replay=%s\n", rf.Property, args[0])
		return 1
	}
	fmt.Println("replay passes on the current tree")
	return 0
}
