package main

// `govc check <property>`: decide one property, write evidence, print
// KNOWN-FINDING / VIOLATION / UNDECIDED lines, exit 0 or 1.

import (
	"bufio"
	"crypto/sha256"
	"encoding/hex"
	"encoding/json"
	"flag"
	"fmt"
	"os"
	"path/filepath"
	"regexp"
	"runtime"
	"sort"
	"strconv"
	"strings"
	"time"
)

type LedgerEntry struct {
	Func string `json:"func"`
	Hash string `json:"hash"` // hash of the function's SSA (incl. inlined callees) at the time the obligation was discharged
}

type Ledger struct {
	Note        string                 `json:"note"`
	Obligations map[string]LedgerEntry `json:"obligations"`
}

func loadLedger(path string) *Ledger {
	l := &Ledger{Obligations: map[string]LedgerEntry{}}
	b, err := os.ReadFile(path)
	if err != nil {
		return l
	}
	json.Unmarshal(b, l)
	if l.Obligations == nil {
		l.Obligations = map[string]LedgerEntry{}
	}
	return l
}

type KnownFinding struct {
	Property   string
	Obligation string
	Text       string
}

var findingRe = regexp.MustCompile(`^finding:\s+property=(\S+)\s+(?:obligation|bounded)=(.+?)\s+--\s+(.*)$`)

func loadFindings(path string) []KnownFinding {
	var out []KnownFinding
	f, err := os.Open(path)
	if err != nil {
		return nil
	}
	defer f.Close()
	sc := bufio.NewScanner(f)
	for sc.Scan() {
		line := strings.TrimSpace(sc.Text())
		if m := findingRe.FindStringSubmatch(line); m != nil {
			out = append(out, KnownFinding{m[1], strings.TrimSpace(m[2]), m[3]})
		}
	}
	return out
}

func hasTag(tags []string, p string) bool {
	for _, t := range tags {
		if t == p {
			return true
		}
	}
	return false
}

// funcDepHash: SSA hash of a function combined with the hashes of the package functions it inlines.
func (v *Verifier) funcDepHash(name string, seen map[string]bool) string {
	fn := v.funcs[name]
	if fn == nil {
		return "missing"
	}
	if seen[name] {
		return ""
	}
	seen[name] = true
	h := v.ssaHash(fn)
	// inlined callees (contracts marked inline, or closures)
	var deps []string
	for _, b := range fn.Blocks {
		for _, ins := range b.Instrs {
			cc := callCommonOf(ins)
			if cc == nil {
				continue
			}
			if callee := cc.StaticCallee(); callee != nil {
				cn := shortName(callee)
				if c := v.cf.Funcs[cn]; c != nil && c.Inline {
					deps = append(deps, cn)
				}
			}
		}
	}
	sort.Strings(deps)
	for _, d := range deps {
		h += "+" + v.funcDepHash(d, seen)
	}
	s := sha256.Sum256([]byte(h))
	return hex.EncodeToString(s[:8])
}

type Sample struct {
	Obligation string `json:"obligation"`
	Clause     string `json:"clause"`
	Status     string `json:"status"`
	Solver     string `json:"solver"`
	Ms         int64  `json:"ms"`
	Paths      int    `json:"paths"`
}

type Evidence struct {
	PropertyID  string                 `json:"property_id"`
	Tier        string                 `json:"tier"`
	Seed        int                    `json:"seed"`
	Level       string                 `json:"level"`
	Coverage    map[string]interface{} `json:"coverage"`
	Assumptions []string               `json:"assumptions"`
	WallS       float64                `json:"wall_s"`
	Violations  int                    `json:"violations"`
}

var globalAssumptions = []string{
	"A1 tooling: go/types and go/ssa (x/tools v0.29.0) represent the program faithfully; govc's translation of the SSA subset and the SMT solvers (z3 5.1.0, z3 4.8.12, cvc5 1.0.3) are sound",
	"A2 sequential semantics: each function is verified as one goroutine running from entry to return without interference",
	"A3 sync/atomic operations are plain loads/stores; mutexes are ghost lock counts (no blocking semantics)",
	"A4 machine integers are mathematical integers with range typing on values that enter a function; conversions wrap exactly; +,-,* carry a no-overflow obligation only in the functions marked `overflow` in the contract file (the record and location codecs, the item/node/root writers, the root scan, the block-visit counters and tables), elsewhere they are treated as mathematical; assumed for those obligations: a slice lies within a 2^48-byte address space (offset + capacity <= 2^48) and the store file is smaller than 2^60 bytes (`relies file-size-fits`)",
	"A13 allocator freshness: objects returned by new/make/&T{} are distinct from every object allocated before (free-list reuse by mkNode/mkNodeLoc/mkRootNodeLoc is covered only by their contracts)",
	"exported package variables MagicBeg, MagicEnd and the unexported constants set by init are not assigned by clients (mechanically checked inside the package only)",
}

func cmdCheck(args []string) int {
	fs := flag.NewFlagSet("check", flag.ExitOnError)
	tier := fs.String("tier", os.Getenv("VERIF_TIER"), "quick or thorough")
	repo := fs.String("repo", "/repo", "repository")
	verif := fs.String("verif", "/verif", "verif directory")
	contracts := fs.String("contracts", "", "contract file (default <repo>/contracts_verif.go)")
	noEvidence := fs.Bool("no-evidence", false, "do not write the evidence file (used by self-tests on scratch trees)")
	// allow the property before or after the flags
	var prop string
	rest := args
	if len(rest) > 0 && !strings.HasPrefix(rest[0], "-") {
		prop = rest[0]
		rest = rest[1:]
	}
	fs.Parse(rest)
	if prop == "" && fs.NArg() > 0 {
		prop = fs.Arg(0)
	}
	if prop == "" {
		usage()
	}
	if *tier == "" {
		*tier = "quick"
	}
	seed := 0
	if s := os.Getenv("VERIF_SEED"); s != "" {
		seed, _ = strconv.Atoi(s)
	}
	if *contracts == "" {
		*contracts = contractPath(*repo)
	}
	t0 := time.Now()
	v, err := loadVerifier(*repo, *contracts)
	if err != nil {
		fmt.Fprintf(os.Stderr, "govc: cannot load %s: %v\n", *repo, err)
		fmt.Printf("TOOLING-ERROR property=%s the repository does not load/type-check: %v\n", prop, err)
		return 2
	}
	names := selectFuncs(v, nil, []string{prop})
	results := verifyMany(v, names)
	var obls []*Obligation
	funcErrs := map[string][]string{}
	for _, r := range results {
		if len(r.Errors) > 0 {
			funcErrs[r.Name] = r.Errors
		}
		for _, o := range r.Obls {
			if hasTag(o.Tags, prop) {
				obls = append(obls, o)
			}
		}
	}
	work := filepath.Join(*verif, ".work", fmt.Sprintf("check-%s-%d", prop, os.Getpid()))
	defer os.RemoveAll(work)
	timeout := 10
	thorough := *tier == "thorough"
	if thorough {
		timeout = 60
	}
	// every obligation of the selected functions is solved (not only the ones tagged with this property): goals
	// are assumed once asserted, so an unproved obligation of another property must be known in order not to
	// let it hide a failure of this property's obligations further down the same path (recheckAfterFailures)
	// quick and thorough discharge the obligations the same way (incremental z3 5.1 sessions, then the
	// three-solver portfolio for what a session leaves open); thorough gives the portfolio 60 s instead of 10 s
	stats, _ := solveResults(results, nil, work, timeout, runtime.NumCPU(), false)
	agg := aggregate(obls)
	// thorough, in addition: an independent second opinion on one instance of every named obligation by the
	// two other solvers (a definite "sat" against z3 5.1's "unsat" is a disagreement and makes the
	// obligation undecided; time-outs of the older solvers are counted, not held against the proof)
	var cross *crossStats
	if thorough {
		cross = crossCheck(agg, work, runtime.NumCPU())
		for _, a := range agg {
			if cross.DisagreeOn[a.Name] != "" && a.Status == "proved" {
				a.Status, a.Output, a.Solver = "error", cross.DisagreeOn[a.Name], "disagreement"
			}
		}
	}
	ledger := loadLedger(filepath.Join(*verif, "ledger.json"))
	findings := loadFindings(filepath.Join(*verif, "known_findings.txt"))
	hashes := map[string]string{}
	for _, n := range names {
		hashes[n] = v.funcDepHash(n, map[string]bool{})
	}
	// an obligation of a function whose verification hit engine errors is undecided
	discharged := 0
	violations := 0
	var undecided, known []string
	var samples []Sample
	replayDir := filepath.Join(*verif, "out", "replays")
	for _, a := range agg {
		if len(funcErrs[a.Func]) > 0 && a.Status == "proved" && a.Kind != "cover" {
			// keep proved status: errors are reported separately and make the run non-proof
		}
		if len(samples) < 12 || a.Status != "proved" {
			samples = append(samples, Sample{a.Name, a.Src, a.Status, a.Solver, a.Ms, a.Paths})
		}
		if a.Status == "proved" {
			discharged++
			continue
		}
		// known finding?
		isKnown := false
		for _, kf := range findings {
			if kf.Property == prop && kf.Obligation == a.Name {
				fmt.Printf("KNOWN-FINDING: property=%s %s -- %s\n", prop, a.Name, kf.Text)
				known = append(known, a.Name)
				isKnown = true
				break
			}
		}
		if isKnown {
			continue
		}
		le, inLedger := ledger.Obligations[a.Name]
		if !inLedger && (strings.Contains(a.Name, "#frame@") || strings.Contains(a.Name, ".frame@")) {
			// the frame condition of a function is one obligation split per written array: an array the
			// function did not write at all on the delivered tree has no entry of its own, but "F writes only
			// what its modifies clause declares" was discharged there iff F's other obligations are recorded
			for n, e := range ledger.Obligations {
				if strings.HasPrefix(n, a.Func+"#") {
					le, inLedger = e, true
					break
				}
			}
		}
		changed := inLedger && le.Hash != hashes[a.Func]
		if errs := funcErrs[a.Func]; len(errs) > 0 && a.Status != "vacuous" {
			// The contract of this function could not be evaluated against its current code (typically a local that
			// a clause names was renamed, or a loop was restructured): its obligations are not "passed before, fail
			// now with the solver's reason" -- the specification itself is stale. Only a failing input on the real
			// code makes this a violation; otherwise the function is undecided.
			rp := writeReplay(replayDir, prop, a, v, work, *repo)
			if rp.reproduced {
				fmt.Printf("VIOLATION property=%s replay=%s\n", prop, rp.path)
				violations++
			} else {
				fmt.Printf("UNDECIDED obligation=%s (the contract of %s is stale for the current code: %s)\n", a.Name, a.Func, firstLine(errs[0]))
				undecided = append(undecided, a.Name)
			}
			continue
		}
		switch a.Status {
		case "failed":
			// a model of the negated VC exists
			rp := writeReplay(replayDir, prop, a, v, work, *repo)
			if rp.reproduced {
				fmt.Printf("VIOLATION property=%s replay=%s\n", prop, rp.path)
				violations++
			} else if inLedger {
				fmt.Printf("VIOLATION property=%s replay=%s no-failing-input-found\n", prop, rp.path)
				violations++
			} else {
				fmt.Printf("UNDECIDED obligation=%s (counter-model found, but the obligation is not in the ledger of the delivered tree and no replay reproduces it)\n", a.Name)
				undecided = append(undecided, a.Name)
			}
		case "vacuous":
			fmt.Printf("UNDECIDED obligation=%s (vacuity guard: the precondition or path became unsatisfiable)\n", a.Name)
			undecided = append(undecided, a.Name)
		default: // unknown, undecided, error
			if changed {
				rp := writeReplay(replayDir, prop, a, v, work, *repo)
				if rp.reproduced {
					fmt.Printf("VIOLATION property=%s replay=%s\n", prop, rp.path)
				} else {
					fmt.Printf("VIOLATION property=%s replay=%s no-failing-input-found\n", prop, rp.path)
				}
				violations++
			} else {
				why := "solver gave no answer"
				if a.Status == "undecided" {
					why = a.Output
				}
				fmt.Printf("UNDECIDED obligation=%s (%s; function unchanged since the ledger was recorded: %v)\n", a.Name, why, inLedger)
				undecided = append(undecided, a.Name)
			}
		}
	}
	// bounded stand-ins: an exhaustive run of the real code over a stated finite space, for the parts
	// of the property whose functions are outside the verifier's reach (never counted as proved)
	brun := runBounded(*verif, *repo, prop, *tier, work, "", "")
	var boundedKnown []string
	if brun.Ran {
		perTest := map[string]int{}
		for k, bv := range brun.Violations {
			key := boundedKey(bv)
			isKnown := false
			for _, kf := range findings {
				if kf.Property == prop && kf.Obligation == key {
					fmt.Printf("KNOWN-FINDING: property=%s bounded %s -- %s\n", prop, key, kf.Text)
					boundedKnown = append(boundedKnown, key)
					isKnown = true
					break
				}
			}
			if isKnown {
				continue
			}
			violations++
			perTest[bv.Test]++
			if perTest[bv.Test] > 3 {
				continue // the first three failing cases of a harness test are written out; the rest are counted
			}
			rp := writeBoundedReplay(replayDir, prop, k, bv, brun)
			fmt.Printf("VIOLATION property=%s replay=%s\n", prop, rp)
		}
		if brun.Err != "" {
			fmt.Printf("UNDECIDED bounded harness: %s\n", brun.Err)
		}
		fmt.Printf("BOUNDED property=%s tests=%d cases=%d violations=%d known=%d wall=%.1fs (bounded stand-in: not counted as proved)\n", prop, len(brun.Tests), brun.Cases, len(brun.Violations)-len(boundedKnown), len(boundedKnown), brun.WallS)
	}
	// stale contracts / engine errors
	var errList []string
	for fn, es := range funcErrs {
		for _, e := range es {
			errList = append(errList, fn+": "+e)
		}
	}
	sort.Strings(errList)
	for _, e := range errList {
		fmt.Printf("UNDECIDED engine: %s\n", e)
	}
	// evidence
	var trusted []string
	for k := range v.trustedUsed {
		trusted = append(trusted, "contract assumed: "+k)
	}
	intr := map[string]bool{}
	for _, n := range names {
		for k := range v.intrinsics[n] {
			intr[k] = true
		}
	}
	for k := range intr {
		trusted = append(trusted, "built-in model of library function: "+k)
	}
	for k, cs := range v.relied {
		for _, c := range cs {
			trusted = append(trusted, "data-structure invariant relied upon at entry of "+k+" (guaranteed by the writers' postconditions, not re-proved here): "+c)
		}
	}
	for k := range v.postulated {
		trusted = append(trusted, "ghost accounting postulated at calls of: "+k)
	}
	sort.Strings(trusted)
	var outside []string
	for fn, ws := range v.unsupported {
		outside = append(outside, fn+": "+strings.Join(ws, "; "))
	}
	for fn, ws := range v.missing {
		outside = append(outside, fn+": no contract for "+strings.Join(ws, "; "))
	}
	sort.Strings(outside)
	level := "proof"
	claimedObls := len(agg) - len(known) // recorded known findings are reported separately and are not part of what is claimed
	if discharged != claimedObls || len(errList) > 0 || claimedObls == 0 {
		level = "other"
	}
	if lv := claimedLevel(*verif, prop); lv != "" && lv != "proof" {
		level = lv
	}
	var mathFns []string
	for _, n := range names {
		if v.mathInt[n] {
			mathFns = append(mathFns, n)
		}
	}
	sort.Strings(mathFns)
	cov := map[string]interface{}{
		"obligations":              claimedObls,
		"obligations_generated":    len(agg),
		"discharged":               discharged,
		"obligation_instances":     len(obls),
		"checker_cmd":              fmt.Sprintf("/verif/bin/govc check %s --tier %s", prop, *tier),
		"trusted_base":             trusted,
		"functions_under_contract": names,
		"functions_outside_subset": outside,
		"by_backend":               stats.byBackend,
		"solver_queries":           stats.queries,
		"solver_time_s":            float64(stats.totalMs) / 1000,
		"undecided":                undecided,
		"known_findings":           known,
		"engine_errors":            errList,
		"samples":                  samples,
		"unchecked_arithmetic_in":  mathFns,
		"explanation": fmt.Sprintf("contract-based deductive verification of the real code: %d named obligations (%d per-path instances) generated from go/ssa of /repo's working tree for %d functions under contract; %d discharged (unsat of the negated VC), %d undecided, %d known findings, %d violations",
			len(agg), len(obls), len(names), discharged, len(undecided), len(known), violations),
	}
	if cross != nil {
		cov["cross_solver_check"] = map[string]interface{}{
			"what":          "one instance of every named obligation re-run standalone on z3 4.8.12 and cvc5 1.0.3 (5 s each)",
			"obligations":   cross.Checked,
			"confirmed_by":  cross.Confirmed,
			"no_answer":     cross.NoAnswer,
			"disagreements": cross.Disagree,
		}
	}
	if thorough {
		if files := leanFilesFor(prop); len(files) > 0 {
			lr := checkLean(*verif, files)
			cov["lemmas_checked_by_lean"] = lr
			for _, l := range lr.Lines {
				fmt.Println(l)
			}
		}
		st := selfTest(*verif, *repo, prop, work)
		cov["must_fail_corpus"] = st
		for _, l := range st.Lines {
			fmt.Println(l)
		}
	}
	if brun.Ran {
		cov["bounded"] = map[string]interface{}{
			"label":          "BOUNDED stand-in for functions outside the verifier's reach: exhaustive run of the real code over the stated finite space; not counted in obligations/discharged and never counted as proved",
			"tests":          brun.Tests,
			"cases":          brun.Cases,
			"spaces":         brun.Spaces,
			"violations":     len(brun.Violations) - len(boundedKnown),
			"known_findings": boundedKnown,
			"cmd":            brun.Cmd,
			"wall_s":         brun.WallS,
			"error":          brun.Err,
		}
	}
	ev := Evidence{PropertyID: prop, Tier: *tier, Seed: seed, Level: level, Coverage: cov, Assumptions: assumptionsFor(v, names), WallS: time.Since(t0).Seconds(), Violations: violations}
	if !*noEvidence {
		os.MkdirAll(filepath.Join(*verif, "evidence"), 0755)
		if err := writeJSON(filepath.Join(*verif, "evidence", prop+".json"), ev); err != nil {
			fmt.Fprintln(os.Stderr, "cannot write evidence:", err)
		}
	}
	fmt.Printf("SUMMARY property=%s tier=%s functions=%d obligations=%d discharged=%d undecided=%d known=%d violations=%d wall=%.1fs\n",
		prop, *tier, len(names), len(agg), discharged, len(undecided), len(known), violations, time.Since(t0).Seconds())
	if len(agg) == 0 {
		fmt.Printf("TOOLING-ERROR property=%s no obligations were generated (vacuity guard)\n", prop)
		return 2
	}
	if violations > 0 {
		return 1
	}
	return 0
}

func claimedLevel(verif, prop string) string {
	b, err := os.ReadFile(filepath.Join(verif, "MANIFEST.json"))
	if err != nil {
		return ""
	}
	var m struct {
		Checks []struct {
			PropertyID   string `json:"property_id"`
			LevelClaimed struct {
				Category string `json:"category"`
			} `json:"level_claimed"`
		} `json:"checks"`
	}
	if json.Unmarshal(b, &m) != nil {
		return ""
	}
	for _, c := range m.Checks {
		if c.PropertyID == prop {
			return c.LevelClaimed.Category
		}
	}
	return ""
}

func assumptionsFor(v *Verifier, names []string) []string {
	out := append([]string(nil), globalAssumptions...)
	out = append(out,
		"every `relies` clause (data-structure invariant assumed at function entry, re-established by the writers' postconditions) and every `postulate` clause (ghost slot denotations tvs/ias, ghost accounting) used by these functions -- listed one by one under coverage.trusted_base",
		"the read functions' denotation postulates stand for: the record codecs are inverse (C14), the file is append-only below the last root (C09), and a node reachable from a live root has not been recycled (C10, paper argument; known finding D6 marks where it breaks)",
		"lemmas about the specification functions that the SMT prelude states as axioms (L1: no member of a heap-ordered search tree outranks the root; cnt/sumb/ibytes >= 0) are proved in Lean 4 + Mathlib over hand-transcribed definitions (/verif/lean)",
		"function values: a function value of the package that is handed to a parameter with a function-type contract is VERIFIED against that contract (conform@/conform-pre@ obligations, part of the counts above); assumed about closures: a callee does not retain a function value beyond the call (its frame would show the store); what a closure's `captures` clause says of its captured variables is asserted where the closure is made and re-proved at its exit, its stability in between against writes by the enclosing function is assumed; a closure handed to a callee changes, of its captured variables, only those its code stores to; CopyTo's copying visitor is not verified (CopyTo is outside the contracts)",
		"visitor invariants: vinv(f, z) is uninterpreted; a closure's `tracks` clause defines it for that closure; assumed: a function value's invariant depends only on cells that existed when the value was made (footprint axiom), and application visitors preserve their own invariant (function-type contract of visitors, A9); lemma L3 (a strictly increasing log segment holding exactly the keys of a search tree has cnt entries) is proved in Lean over hand-transcribed definitions",
		"extern contracts for encoding/json (Marshal, Unmarshal incl. the effect of Collection.UnmarshalJSON on the decoded map), sort.Strings (a permutation), math/rand.Intn (a result in [0,n)), StoreFile/io (A5), and built-in models of sync, sync/atomic, encoding/binary, bytes.Buffer, errors, fmt, math/rand",
		"user callbacks and visitors are neutral (A9): they touch no gkvlite state and, for visitors, only append to the ghost visit log")
	for _, n := range names {
		if c := v.cf.Funcs[n]; c != nil && c.Trusted {
			out = append(out, "contract of "+n+" is assumed, its body is not verified")
		}
	}
	seen := map[string]bool{}
	for _, n := range names {
		for callee := range v.uses[n] {
			if c := v.cf.Funcs[callee]; c != nil && c.Trusted && !seen[callee] {
				seen[callee] = true
				out = append(out, "contract of "+callee+" is assumed at its call sites (marked trusted: body not verified)")
			}
		}
	}
	return out
}

// cmdLedger records the obligations discharged on the current tree.
func cmdLedger(args []string) int {
	fs := flag.NewFlagSet("ledger", flag.ExitOnError)
	repo := fs.String("repo", "/repo", "repository")
	verif := fs.String("verif", "/verif", "verif directory")
	fs.Parse(args)
	v, err := loadVerifier(*repo, contractPath(*repo))
	if err != nil {
		fmt.Fprintln(os.Stderr, err)
		return 2
	}
	names := selectFuncs(v, nil, nil)
	results := verifyMany(v, names)
	var obls []*Obligation
	for _, r := range results {
		obls = append(obls, r.Obls...)
	}
	work := filepath.Join(*verif, ".work", fmt.Sprintf("ledger-%d", os.Getpid()))
	defer os.RemoveAll(work)
	solveResults(results, nil, work, 20, runtime.NumCPU(), false)
	l := &Ledger{Note: "obligations discharged on the delivered tree (pinned commit + hook and fix commits); written by `govc ledger`, never at check time", Obligations: map[string]LedgerEntry{}}
	n := 0
	for _, a := range aggregate(obls) {
		if a.Status == "proved" && a.Kind != "cover" {
			l.Obligations[a.Name] = LedgerEntry{Func: a.Func, Hash: v.funcDepHash(a.Func, map[string]bool{})}
			n++
		} else if a.Status != "proved" {
			fmt.Printf("not in ledger: %s (%s)\n", a.Name, a.Status)
		}
	}
	if err := writeJSON(filepath.Join(*verif, "ledger.json"), l); err != nil {
		fmt.Fprintln(os.Stderr, err)
		return 2
	}
	fmt.Printf("ledger: %d obligations recorded\n", n)
	return 0
}
