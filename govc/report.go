package main

func cmdCheck(args []string) int  { return 2 }
func cmdReplay(args []string) int { return 2 }
func cmdLedger(args []string) int { return 2 }
