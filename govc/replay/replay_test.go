package gkvlite

// Replay support for failed obligations (injected with `go test -overlay`; nothing is written into /repo).
// A test named TestReplay_<function> evaluates the contract of that function AT RUN TIME on the real code,
// over a fixed corpus of boundary values plus a deterministic pseudo-random corpus (and, when the verifier
// produced scalar model values, over those too: GOVC_MODEL). It uses its own big-endian helpers and its own
// record parser, sharing no code with the functions under test. A replay that fails here turns
// "no-failing-input-found" into a reproduced violation with a concrete input.

import (
	"bytes"
	"encoding/json"
	"fmt"
	"io"
	"math/rand"
	"os"
	"strings"
	"testing"
	"time"
)

// number of oracle evaluations (states, files, flushes) of the current run
var rpCases int

func rpBE(b []byte) uint64 {
	var v uint64
	for _, x := range b {
		v = v<<8 | uint64(x)
	}
	return v
}

func rpModelInts() []int64 {
	out := []int64{}
	var m map[string]string
	if json.Unmarshal([]byte(os.Getenv("GOVC_MODEL")), &m) == nil {
		for _, v := range m {
			var x int64
			if _, err := fmt.Sscanf(v, "%d", &x); err == nil {
				out = append(out, x)
			}
		}
	}
	return out
}

func rpU32s() []uint32 {
	vs := []uint32{0, 1, 2, 15, 16, 17, 255, 256, 257, 65535, 65536, 65537, 1 << 24, 1<<31 - 1, 1 << 31, 1<<32 - 1, 0x01020304, 0xa1b2c3d4}
	r := rand.New(rand.NewSource(1))
	for i := 0; i < 64; i++ {
		vs = append(vs, r.Uint32())
	}
	for _, m := range rpModelInts() {
		vs = append(vs, uint32(m))
	}
	return vs
}

func TestReplay_itemBa_render(t *testing.T) {
	for _, a := range rpU32s() {
		for _, k := range []uint32{0, 1, 255, 256, 65535, 65536, a} {
			ds := itemBa{length: a, keyLength: keyP(k), valLength: a ^ 0x5a5a5a5a, priority: int32(a>>1) - 7}
			for _, hl := range []int{16, 17, 40} {
				b := ds.render(hl)
				if len(b) != hl || uint32(rpBE(b[0:4])) != ds.length || uint32(rpBE(b[4:8])) != uint32(ds.keyLength) || uint32(rpBE(b[8:12])) != ds.valLength || uint32(rpBE(b[12:16])) != uint32(ds.priority) {
					t.Fatalf("render(%+v, %d) = % x: not the 16-byte big-endian header (length, key length, value length, priority)", ds, hl, b)
				}
				for _, x := range b[16:] {
					if x != 0 {
						t.Fatalf("render(%+v, %d): non-zero tail", ds, hl)
					}
				}
			}
		}
	}
}

func TestReplay_itemBa_populate(t *testing.T) {
	for _, a := range rpU32s() {
		for _, k := range rpU32s()[:24] {
			b := make([]byte, 16)
			put := func(off int, v uint32) { b[off], b[off+1], b[off+2], b[off+3] = byte(v>>24), byte(v>>16), byte(v>>8), byte(v) }
			put(0, a)
			put(4, k)
			put(8, a^0x33333333)
			put(12, a+k)
			var ds itemBa
			r := ds.populate(b)
			if r != &ds || ds.length != a || uint32(ds.keyLength) != k || ds.valLength != a^0x33333333 || ds.priority != int32(a+k) {
				t.Fatalf("populate(% x) = %+v: fields are not the big-endian words at offsets 0, 4, 8, 12", b, ds)
			}
		}
	}
}

func TestReplay_ploc_write(t *testing.T) {
	for _, a := range rpU32s() {
		for _, hi := range []int64{0, 1, 1 << 32, 1<<62 + 5} {
			p := &ploc{Offset: hi + int64(a), Length: a ^ 0x77}
			for _, pos := range []int{0, 3} {
				b := make([]byte, 20)
				n := p.write(b, pos)
				if n != pos+12 || int64(rpBE(b[pos:pos+8])) != p.Offset || uint32(rpBE(b[pos+8:pos+12])) != p.Length {
					t.Fatalf("(%+v).write(b, %d) = %d, % x: not offset (8 bytes) then length (4 bytes), big endian", *p, pos, n, b)
				}
			}
		}
	}
	b := make([]byte, 12)
	for i := range b {
		b[i] = 0xff
	}
	if n := (*ploc)(nil).write(b, 0); n != 12 || !bytes.Equal(b, make([]byte, 12)) {
		t.Fatalf("nil.write = %d, % x: the empty location is twelve zero bytes", n, b)
	}
}

func TestReplay_ploc_read(t *testing.T) {
	for _, a := range rpU32s() {
		b := make([]byte, 16)
		off := int64(a)<<7 + 3
		for i := 0; i < 8; i++ {
			b[2+i] = byte(uint64(off) >> (56 - 8*uint(i)))
		}
		l := a ^ 0x1111
		b[10], b[11], b[12], b[13] = byte(l>>24), byte(l>>16), byte(l>>8), byte(l)
		var p ploc
		r, n := p.read(b, 2)
		if n != 14 || p.Offset != off || p.Length != l || (r == nil) != (off == 0 && l == 0) || (r != nil && r != &p) {
			t.Fatalf("read(% x, 2) = %v, %d, %+v", b, r, n, p)
		}
	}
}

// ---- file level -------------------------------------------------------------------------------

type rpFile struct{ b []byte }

func (f *rpFile) ReadAt(p []byte, off int64) (int, error) {
	if off < 0 || off >= int64(len(f.b)) {
		return 0, fmt.Errorf("EOF")
	}
	n := copy(p, f.b[off:])
	if n < len(p) {
		return n, fmt.Errorf("EOF")
	}
	return n, nil
}
func (f *rpFile) WriteAt(p []byte, off int64) (int, error) {
	if need := int(off) + len(p); need > len(f.b) {
		f.b = append(f.b, make([]byte, need-len(f.b))...)
	}
	copy(f.b[off:], p)
	return len(p), nil
}
func (f *rpFile) Truncate(n int64) error     { f.b = f.b[:n]; return nil }
func (f *rpFile) Stat() (os.FileInfo, error) { return rpInfo{int64(len(f.b))}, nil }

type rpInfo struct{ n int64 }

func (i rpInfo) Name() string       { return "rp" }
func (i rpInfo) Size() int64        { return i.n }
func (i rpInfo) Mode() os.FileMode  { return 0600 }
func (i rpInfo) ModTime() time.Time { return time.Time{} }
func (i rpInfo) IsDir() bool        { return false }
func (i rpInfo) Sys() interface{}   { return nil }

var rpMagicBeg, rpMagicEnd = []byte("0g1t2r"), []byte("3e4a5p")

// independent validator: does a complete, self-consistent root record end at p?
func rpValidRootEndingAt(f []byte, p int) bool {
	if p < 46 || p > len(f) {
		return false
	}
	if !bytes.Equal(f[p-6:p], rpMagicEnd) || !bytes.Equal(f[p-12:p-6], rpMagicEnd) {
		return false
	}
	length := int(rpBE(f[p-16 : p-12]))
	off := int64(rpBE(f[p-24 : p-16]))
	if off < 0 || int(off) != p-length || length < 46 {
		return false
	}
	o := int(off)
	if !bytes.Equal(f[o:o+6], rpMagicBeg) || !bytes.Equal(f[o+6:o+12], rpMagicBeg) || rpBE(f[o+12:o+16]) != 4 || int(rpBE(f[o+16:o+20])) != length {
		return false
	}
	var m map[string]json.RawMessage
	return json.Unmarshal(f[o+20:p-24], &m) == nil
}

func rpGreatestRoot(f []byte) int {
	for p := len(f); p >= 46; p-- {
		if rpValidRootEndingAt(f, p) {
			return p
		}
	}
	return 0
}

// files: a few flushed histories, each with junk tails and every truncation near the last roots
func rpFiles(t *testing.T) [][]byte {
	var out [][]byte
	for _, n := range []int{0, 1, 3, 9} {
		f := &rpFile{}
		s, err := NewStore(f)
		if err != nil {
			t.Fatal(err)
		}
		c := s.SetCollection("x", nil)
		s.SetCollection("empty", nil)
		for round := 0; round < 3; round++ {
			for k := 0; k < n; k++ {
				c.Set([]byte(fmt.Sprintf("k%02d", k)), []byte(fmt.Sprintf("value-%d-%d-3e4a5p3e4a5p", round, k)))
			}
			if err := s.Flush(); err != nil {
				t.Fatal(err)
			}
			base := append([]byte(nil), f.b...)
			out = append(out, base)
			for _, junk := range [][]byte{{0}, []byte("3e4a5p3e4a5p"), bytes.Repeat([]byte{0}, 30), append(bytes.Repeat([]byte{7}, 20), []byte("0g1t2r0g1t2r3e4a5p3e4a5p")...)} {
				out = append(out, append(append([]byte(nil), base...), junk...))
			}
			for cut := 1; cut <= 60 && cut < len(base); cut += 7 {
				out = append(out, append([]byte(nil), base[:len(base)-cut]...))
			}
		}
	}
	// a store with no collections at all: its root record is the smallest one there is (46 bytes, "{}")
	{
		f := &rpFile{}
		s, _ := NewStore(f)
		c := s.SetCollection("x", nil)
		c.Set([]byte("a"), []byte("1"))
		s.Flush()
		s.RemoveCollection("x")
		s.Flush()
		out = append(out, append([]byte(nil), f.b...))
		g := &rpFile{}
		s2, _ := NewStore(g)
		s2.Flush()
		out = append(out, append([]byte(nil), g.b...))
	}
	// root records ending just past a 512- or 4096-byte boundary, followed by the first bytes of a later flush
	for _, mod := range []int{512, 4096} {
		for _, residue := range []int{1, 3, 5, 11} {
			for pad := 600; pad < 600+2*mod; pad++ {
				f := &rpFile{}
				s, _ := NewStore(f)
				c := s.SetCollection("x", nil)
				c.Set([]byte("a"), []byte("first"))
				s.Flush()
				c.Set([]byte("pad"), bytes.Repeat([]byte{'p'}, pad))
				s.Flush()
				if len(f.b)%mod != residue {
					continue
				}
				end := len(f.b)
				c.Set([]byte("later"), []byte("uncommitted"))
				s.Flush()
				for _, extra := range []int{1, 20, 200} {
					if end+extra <= len(f.b) {
						out = append(out, append([]byte(nil), f.b[:end+extra]...))
					}
				}
				break
			}
		}
	}
	return out
}

func rpScan(t *testing.T) {
	for _, img := range rpFiles(t) {
		rpCases++
		want := rpGreatestRoot(img)
		f := &rpFile{b: append([]byte(nil), img...)}
		s, err := NewStore(f)
		switch {
		case want == 0 && len(img) > 0:
			if err == nil {
				t.Fatalf("a %d-byte file without any complete root record opened without error (size %d)", len(img), s.size)
			}
		case err != nil:
			t.Fatalf("file of %d bytes whose last complete root record ends at %d: open failed: %v", len(img), want, err)
		case int(s.size) != want:
			t.Fatalf("file of %d bytes: opened at %d, the last complete root record ends at %d", len(img), s.size, want)
		}
		if !bytes.Equal(f.b, img) {
			t.Fatalf("opening wrote to the file")
		}
	}
}

func TestReplay_Store_scanBackwardsForMagicEnd(t *testing.T) { rpScan(t) }
func TestReplay_Store_readRootsScan(t *testing.T)            { rpScan(t) }
func TestReplay_Store_checkAndReadRoots(t *testing.T)        { rpScan(t) }
func TestReplay_Store_readRoots(t *testing.T)                { rpScan(t) }
func TestReplay_Store_readRootsEnd(t *testing.T)             { rpScan(t) }
func TestReplay_NewStoreEx(t *testing.T)                     { rpScan(t) }
func TestReplay_init(t *testing.T)                           { rpScan(t) }

// every Flush ends with a complete root record as its last write, appended at or beyond the old size
func rpFlush(t *testing.T) {
	f := &rpFile{}
	s, _ := NewStore(f)
	c := s.SetCollection("x", nil)
	for round := 0; round < 6; round++ {
		rpCases++
		before := append([]byte(nil), f.b...)
		for k := 0; k <= round; k++ {
			c.Set([]byte(fmt.Sprintf("k%02d", k)), []byte(fmt.Sprintf("v%d", round)))
		}
		if round == 4 {
			s.RemoveCollection("x")
			c = s.SetCollection("y", nil)
		}
		if round == 2 {
			// a Flush with nothing changed since the last one still appends a root record (FlushRevert
			// counts flushes by root records)
			if err := s.Flush(); err != nil {
				t.Fatal(err)
			}
			before = append([]byte(nil), f.b...)
			if err := s.Flush(); err != nil { // nothing changed since the previous line
				t.Fatal(err)
			}
			if len(f.b) < len(before)+46 || !rpValidRootEndingAt(f.b, len(f.b)) {
				t.Fatalf("a Flush with no change in between returned nil without appending a root record (%d -> %d bytes)", len(before), len(f.b))
			}
			before = append([]byte(nil), f.b...)
			c.Set([]byte("again"), []byte("x"))
		}
		if err := s.Flush(); err != nil {
			t.Fatal(err)
		}
		if !bytes.Equal(f.b[:len(before)], before) {
			t.Fatalf("Flush #%d modified bytes below the old end of file", round)
		}
		if len(f.b) < len(before)+46 || !rpValidRootEndingAt(f.b, len(f.b)) || int(s.size) != len(f.b) {
			t.Fatalf("Flush #%d returned nil but the file (%d -> %d bytes, size %d) does not end in a complete root record", round, len(before), len(f.b), s.size)
		}
	}
}

func TestReplay_Store_Flush(t *testing.T)      { rpFlush(t) }
func TestReplay_Store_writeRoots(t *testing.T) { rpFlush(t) }

// ---- tree level -------------------------------------------------------------------------------
// Random histories against a plain map model, with the tree invariants checked at every node after
// every step (search order, exact aggregates, heap order while no key was overwritten with a lower
// priority, depth reported by the visits). Used as the replay of every tree-tier function.

// order under the collection's comparator (set by rpMap for the reverse-comparator histories)
var rpLess = func(a, b string) bool { return a < b }

func rpReverse(a, b []byte) int { return bytes.Compare(b, a) }

type rpModelItem struct {
	val string
	pri int32
}

func rpCheckTree(t *testing.T, c *Collection, model map[string]rpModelItem, heapOK bool, what string) {
	rpCases++
	// walk the real tree
	var walk func(n *nodeLoc, depth int, lo, hi string) (cnt uint64, bytesTotal uint64, rootPri int32)
	depths := map[string]int{}
	walk = func(n *nodeLoc, depth int, lo, hi string) (uint64, uint64, int32) {
		nn, err := n.read(c.store)
		if err != nil {
			t.Fatalf("%s: read: %v", what, err)
		}
		if n.isEmpty() || nn == nil {
			return 0, 0, -1
		}
		it, err := nn.item.read(c, true)
		if err != nil || it == nil {
			t.Fatalf("%s: item read: %v %v", what, it, err)
		}
		k := string(it.Key)
		if (lo != "" && !rpLess(lo, k)) || (hi != "" && !rpLess(k, hi)) {
			t.Fatalf("%s: search order broken at key %q (bounds %q..%q)", what, k, lo, hi)
		}
		m, ok := model[k]
		if !ok || m.val != string(it.Val) || m.pri != it.Priority {
			t.Fatalf("%s: tree holds %q=%q/%d, model has %v (present %v)", what, k, it.Val, it.Priority, m, ok)
		}
		depths[k] = depth
		lc, lb, lp := walk(&nn.left, depth+1, lo, k)
		rc, rb, rp := walk(&nn.right, depth+1, k, hi)
		cnt, bt := lc+rc+1, lb+rb+uint64(len(it.Key)+len(it.Val))
		if nn.numNodes != cnt || nn.numBytes != bt {
			t.Fatalf("%s: node %q records %d items / %d bytes, its subtree really has %d / %d", what, k, nn.numNodes, nn.numBytes, cnt, bt)
		}
		if heapOK && (lp > it.Priority || rp > it.Priority) {
			t.Fatalf("%s: a child outranks its parent %q (priority %d, children %d %d)", what, k, it.Priority, lp, rp)
		}
		return cnt, bt, it.Priority
	}
	rnl := c.rootAddRef()
	cnt, bt, _ := walk(rnl.root, 0, "", "")
	c.rootDecRef(rnl)
	if int(cnt) != len(model) {
		t.Fatalf("%s: tree has %d items, model %d", what, cnt, len(model))
	}
	// canonical shape: with distinct priorities (and no key overwritten with a lower one) the depth of every
	// item is determined by keys and priorities alone -- computed here independently of the tree
	if heapOK {
		type kp struct {
			k string
			p int32
		}
		var items []kp
		distinct := map[int32]bool{}
		dup := false
		for k, m := range model {
			items = append(items, kp{k, m.pri})
			dup = dup || distinct[m.pri]
			distinct[m.pri] = true
		}
		if !dup {
			var expect func(set []kp, d int)
			expect = func(set []kp, d int) {
				if len(set) == 0 {
					return
				}
				top := 0
				for i := range set {
					if set[i].p > set[top].p {
						top = i
					}
				}
				if depths[set[top].k] != d {
					t.Fatalf("%s: item %q is at depth %d; keys and priorities alone put it at depth %d (canonical shape)", what, set[top].k, depths[set[top].k], d)
				}
				var lo, hi []kp
				for i := range set {
					if i == top {
						continue
					}
					if rpLess(set[i].k, set[top].k) {
						lo = append(lo, set[i])
					} else {
						hi = append(hi, set[i])
					}
				}
				expect(lo, d+1)
				expect(hi, d+1)
			}
			expect(items, 0)
		}
	}
	ni, nb, err := c.GetTotals()
	if err != nil || ni != cnt || nb != bt {
		t.Fatalf("%s: GetTotals = %d, %d, %v; really %d, %d", what, ni, nb, err, cnt, bt)
	}
	// lookups, extremes, visits
	keys := make([]string, 0, len(model))
	for k := range model {
		keys = append(keys, k)
	}
	sortStrings(keys)
	for _, k := range append(append([]string{}, keys...), "", "zzz", "k05x") {
		it, err := c.GetItem([]byte(k), true)
		m, ok := model[k]
		if err != nil || (it != nil) != ok || (ok && (string(it.Val) != m.val || it.Priority != m.pri)) {
			t.Fatalf("%s: GetItem(%q) = %v, %v; model %v %v", what, k, it, err, m, ok)
		}
	}
	mi, _ := c.MinItem(false)
	ma, _ := c.MaxItem(false)
	if len(keys) == 0 {
		if mi != nil || ma != nil {
			t.Fatalf("%s: Min/Max of an empty collection", what)
		}
	} else if mi == nil || ma == nil || string(mi.Key) != keys[0] || string(ma.Key) != keys[len(keys)-1] {
		t.Fatalf("%s: Min/Max = %v / %v, keys %v", what, mi, ma, keys)
	}
	for _, target := range append(append([]string{}, keys...), "", "k03x", "zzz") {
		for _, stopAfter := range []int{-1, 1, 2} {
			var got []string
			calls := 0
			err := c.VisitItemsAscendEx([]byte(target), true, func(i *Item, d uint64) bool {
				calls++
				got = append(got, string(i.Key))
				if depths[string(i.Key)] != int(d) {
					t.Fatalf("%s: visit reports depth %d for %q, it is at depth %d", what, d, i.Key, depths[string(i.Key)])
				}
				if i.Val == nil {
					t.Fatalf("%s: visit with value delivered %q without a value", what, i.Key)
				}
				return calls != stopAfter
			})
			var want []string
			for _, k := range keys {
				if !rpLess(k, target) {
					want = append(want, k)
				}
			}
			if stopAfter > 0 && len(want) > stopAfter {
				want = want[:stopAfter]
			}
			if err != nil || fmt.Sprint(got) != fmt.Sprint(want) {
				t.Fatalf("%s: ascending visit from %q (stop after %d) = %v, %v; want %v", what, target, stopAfter, got, err, want)
			}
			got = nil
			calls = 0
			c.VisitItemsDescend([]byte(target), false, func(i *Item) bool { calls++; got = append(got, string(i.Key)); return calls != stopAfter })
			want = nil
			for j := len(keys) - 1; j >= 0; j-- {
				if rpLess(keys[j], target) {
					want = append(want, keys[j])
				}
			}
			if stopAfter > 0 && len(want) > stopAfter {
				want = want[:stopAfter]
			}
			if fmt.Sprint(got) != fmt.Sprint(want) {
				t.Fatalf("%s: descending visit from %q (stop after %d) = %v; want %v", what, target, stopAfter, got, want)
			}
		}
	}
}

func sortStrings(s []string) {
	for i := 1; i < len(s); i++ {
		for j := i; j > 0 && rpLess(s[j], s[j-1]); j-- {
			s[j], s[j-1] = s[j-1], s[j]
		}
	}
}

func rpMap(t *testing.T) {
	for seed := int64(1); seed <= 12; seed++ {
		r := rand.New(rand.NewSource(seed))
		f := &rpFile{}
		s, _ := NewStore(f)
		var cmp KeyCompare
		rpLess = func(a, b string) bool { return a < b }
		if seed%3 == 0 {
			cmp = rpReverse
			rpLess = func(a, b string) bool { return a > b }
		}
		c := s.SetCollection("x", cmp)
		model := map[string]rpModelItem{}
		heapOK := true
		for step := 0; step < 60; step++ {
			k := fmt.Sprintf("k%02d", r.Intn(9))
			what := fmt.Sprintf("seed %d step %d", seed, step)
			switch op := r.Intn(10); {
			case op < 5:
				pri := int32(r.Intn(20))
				if seed%2 == 0 {
					pri = int32(step + 1) // strictly rising priorities: the heap-order premise holds throughout
				}
				val := fmt.Sprintf("v%d-%s", step, bytes.Repeat([]byte("x"), r.Intn(6)))
				if old, ok := model[k]; ok && pri < old.pri {
					heapOK = false
				}
				if err := c.SetItem(&Item{Key: []byte(k), Val: []byte(val), Priority: pri}); err != nil {
					t.Fatalf("%s: SetItem: %v", what, err)
				}
				model[k] = rpModelItem{val, pri}
				what += " Set " + k
			case op < 7:
				was, err := c.Delete([]byte(k))
				_, ok := model[k]
				if err != nil || was != ok {
					t.Fatalf("%s: Delete(%q) = %v, %v; present %v", what, k, was, err, ok)
				}
				delete(model, k)
				what += " Delete " + k
			case op == 7:
				if err := s.Flush(); err != nil {
					t.Fatalf("%s: Flush: %v", what, err)
				}
				what += " Flush"
			case op == 8:
				for j := 0; j < 5; j++ {
					c.EvictSomeItems()
				}
				what += " Evict"
			default:
				if err := s.Flush(); err != nil {
					t.Fatal(err)
				}
				s.Close()
				s, _ = NewStore(f)
				c = s.GetCollection("x")
				if cmp != nil {
					c = s.SetCollection("x", cmp) // comparators are not persisted
				}
				what += " Reopen"
			}
			rpCheckTree(t, c, model, heapOK, what)
		}
	}
	rpLess = func(a, b string) bool { return a < b }
	// rejected items change nothing, whatever neutral callbacks are installed
	for _, cb := range []StoreCallbacks{{}, {ItemValLength: func(c *Collection, i *Item) int { return len(i.Val) }}, {ItemValLength: func(c *Collection, i *Item) int { return len(i.Val) }, ItemValWrite: func(c *Collection, i *Item, w io.WriterAt, off int64) error { _, err := w.WriteAt(i.Val, off); return err }}} {
		rpRejected(t, cb)
	}
}

func rpRejected(t *testing.T, cb StoreCallbacks) {
	s, _ := NewStoreEx(nil, cb)
	c := s.SetCollection("x", nil)
	c.Set([]byte("a"), []byte("1"))
	for _, it := range []*Item{{Key: nil, Val: []byte("v")}, {Key: []byte{}, Val: []byte("v")}, {Key: bytes.Repeat([]byte("k"), 65536), Val: []byte("v")}, {Key: []byte("b"), Val: nil}, {Key: []byte("b"), Val: []byte("v"), Priority: -1}} {
		if err := c.SetItem(it); err == nil {
			t.Fatalf("SetItem accepted an item it must reject: key length %d, nil value %v, priority %d", len(it.Key), it.Val == nil, it.Priority)
		}
	}
	rpCheckTree(t, c, map[string]rpModelItem{"a": {"1", func() int32 { i, _ := c.GetItem([]byte("a"), false); return i.Priority }()}}, true, "after rejected items")
}

func TestReplay_Store_union(t *testing.T)            { rpMap(t) }
func TestReplay_Store_split(t *testing.T)            { rpMap(t) }
func TestReplay_Store_join(t *testing.T)             { rpMap(t) }
func TestReplay_Store_walk(t *testing.T)             { rpMap(t) }
func TestReplay_Store_visitNodes(t *testing.T)       { rpMap(t) }
func TestReplay_numInfo(t *testing.T)                { rpMap(t) }
func TestReplay_Collection_GetItem(t *testing.T)     { rpMap(t) }
func TestReplay_Collection_SetItem(t *testing.T)     { rpMap(t) }
func TestReplay_Collection_Set(t *testing.T)         { rpMap(t) }
func TestReplay_Collection_Delete(t *testing.T)      { rpMap(t) }
func TestReplay_Collection_MinItem(t *testing.T)     { rpMap(t) }
func TestReplay_Collection_MaxItem(t *testing.T)     { rpMap(t) }
func TestReplay_Collection_GetTotals(t *testing.T)   { rpMap(t) }
func TestReplay_Collection_mkNode(t *testing.T)      { rpMap(t) }
func TestReplay_ascendChoice(t *testing.T)           { rpMap(t) }
func TestReplay_descendChoice(t *testing.T)          { rpMap(t) }
func TestReplay_Collection_VisitItemsAscendEx(t *testing.T)  { rpMap(t) }
func TestReplay_Collection_VisitItemsDescendEx(t *testing.T) { rpMap(t) }
func TestReplay_itemLoc_read(t *testing.T)           { rpMap(t) }
func TestReplay_itemLoc_write(t *testing.T)          { rpMap(t) }
func TestReplay_nodeLoc_read(t *testing.T)           { rpMap(t) }
func TestReplay_nodeLoc_write(t *testing.T)          { rpMap(t) }

// ---- FlushRevert (C08) --------------------------------------------------------------------------

func rpContents(t *testing.T, s *Store) map[string]map[string]string {
	out := map[string]map[string]string{}
	for _, n := range s.GetCollectionNames() {
		out[n] = map[string]string{}
		c := s.GetCollection(n)
		err := c.VisitItemsAscend([]byte(""), true, func(i *Item) bool { out[n][string(i.Key)] = string(i.Val); return true })
		if err != nil {
			t.Fatalf("visit of %s: %v", n, err)
		}
	}
	return out
}

func rpRevert(t *testing.T) {
	for seed := 1; seed <= 8; seed++ {
		r := rand.New(rand.NewSource(int64(seed)))
		f := &rpFile{}
		s, _ := NewStore(f)
		type flushed struct {
			state map[string]map[string]string
			size  int
		}
		hist := []flushed{{map[string]map[string]string{}, 0}}
		nFlush := 2 + r.Intn(4)
		for k := 0; k < nFlush; k++ {
			rpCases++
			for j := 0; j <= r.Intn(4); j++ {
				cn := fmt.Sprintf("c%d", r.Intn(2))
				if s.GetCollection(cn) == nil {
					s.SetCollection(cn, nil)
				}
				c := s.GetCollection(cn)
				if r.Intn(4) == 0 {
					c.Delete([]byte(fmt.Sprintf("k%d", r.Intn(5))))
				} else {
					c.Set([]byte(fmt.Sprintf("k%d", r.Intn(5))), bytes.Repeat([]byte{'v'}, 1+r.Intn(700)))
				}
			}
			if k == 1 && seed%2 == 0 {
				s.RemoveCollection("c1")
			}
			if err := s.Flush(); err != nil {
				t.Fatal(err)
			}
			hist = append(hist, flushed{rpContents(t, s), len(f.b)})
		}
		// some unflushed changes on top, then revert step by step, down to the empty store
		s.SetCollection("scratch", nil).Set([]byte("x"), []byte("y"))
		for k := len(hist) - 2; k >= 0; k-- {
			rpCases++
			rdone := make(chan error, 1)
			go func() { rdone <- s.FlushRevert() }()
			select {
			case err := <-rdone:
				if err != nil {
					t.Fatalf("seed %d: FlushRevert to flush #%d failed: %v", seed, k, err)
				}
			case <-time.After(5 * time.Second):
				t.Fatalf("seed %d: FlushRevert to flush #%d does not return", seed, k)
			}
			if len(f.b) != hist[k].size {
				t.Fatalf("seed %d: after reverting to flush #%d the file has %d bytes, that flush ended at %d", seed, k, len(f.b), hist[k].size)
			}
			if got := rpContents(t, s); fmt.Sprint(got) != fmt.Sprint(hist[k].state) {
				t.Fatalf("seed %d: after reverting to flush #%d the store holds %v, want %v", seed, k, got, hist[k].state)
			}
			re, err := NewStore(&rpFile{b: append([]byte(nil), f.b...)})
			if err != nil {
				t.Fatalf("seed %d: re-open after revert to flush #%d: %v", seed, k, err)
			}
			if got := rpContents(t, re); fmt.Sprint(got) != fmt.Sprint(hist[k].state) {
				t.Fatalf("seed %d: re-opened after reverting to flush #%d: %v, want %v", seed, k, got, hist[k].state)
			}
		}
		// one more revert on the empty store terminates and stays empty
		done := make(chan error, 1)
		go func() { done <- s.FlushRevert() }()
		select {
		case <-done:
		case <-time.After(5 * time.Second):
			t.Fatalf("seed %d: FlushRevert on the empty store does not return", seed)
		}
		if len(f.b) != 0 || len(s.GetCollectionNames()) != 0 {
			t.Fatalf("seed %d: reverting the empty store left %d bytes / collections %v", seed, len(f.b), s.GetCollectionNames())
		}
	}
	m, _ := NewStore(nil)
	if m.FlushRevert() == nil {
		t.Fatalf("FlushRevert on a memory-only store must fail")
	}
}

func TestReplay_Store_FlushRevert(t *testing.T) { rpRevert(t) }

// ---- lazy loading (C19) -------------------------------------------------------------------------

type rpReadLog struct {
	rpFile
	reads [][2]int64 // offset, length
}

func (f *rpReadLog) ReadAt(p []byte, off int64) (int, error) {
	f.reads = append(f.reads, [2]int64{off, int64(len(p))})
	return f.rpFile.ReadAt(p, off)
}

func rpLazy(t *testing.T) {
	for _, n := range []int{1, 3, 9, 40} {
		f := &rpFile{}
		s, _ := NewStore(f)
		c := s.SetCollection("x", nil)
		for k := 0; k < n; k++ {
			c.Set([]byte(fmt.Sprintf("k%03d", k)), bytes.Repeat([]byte{byte('a' + k%26)}, 40+k))
		}
		s.Flush()
		// value byte ranges, from the item locations of the real tree
		var vals [][2]int64
		var walk func(nl *nodeLoc)
		walk = func(nl *nodeLoc) {
			nn, _ := nl.read(s)
			if nl.isEmpty() || nn == nil {
				return
			}
			it, _ := nn.item.read(c, false)
			if l := nn.item.Loc(); !l.isEmpty() {
				vals = append(vals, [2]int64{l.Offset + 16 + int64(len(it.Key)), l.Offset + int64(l.Length)})
			}
			walk(&nn.left)
			walk(&nn.right)
		}
		rnl := c.rootAddRef()
		walk(rnl.root)
		c.rootDecRef(rnl)
		touchesValue := func(rd [2]int64) bool {
			for _, v := range vals {
				if rd[0] < v[1] && v[0] < rd[0]+rd[1] {
					return true
				}
			}
			return false
		}
		ops := map[string]func(c *Collection){
			"GetItem key-only": func(c *Collection) { c.GetItem([]byte("k001"), false); c.GetItem([]byte("zz"), false) },
			"Exist":            func(c *Collection) { c.Exist([]byte("k000")); c.Exist([]byte("nope")) },
			"MinItem/MaxItem":  func(c *Collection) { c.MinItem(false); c.MaxItem(false) },
			"Len":              func(c *Collection) { c.Len() },
			"visits key-only": func(c *Collection) {
				c.VisitItemsAscend([]byte(""), false, func(*Item) bool { return true })
				c.VisitItemsDescend([]byte("zzz"), false, func(*Item) bool { return true })
			},
			"Set":       func(c *Collection) { c.Set([]byte("k001"), []byte("new")); c.Set([]byte("fresh"), []byte("v")) },
			"Delete":    func(c *Collection) { c.Delete([]byte("k000")); c.Delete([]byte("nope")) },
			"GetTotals": func(c *Collection) { c.GetTotals() },
		}
		for name, op := range ops {
			rpCases++
			lf := &rpReadLog{rpFile: rpFile{b: append([]byte(nil), f.b...)}}
			s2, err := NewStore(lf)
			if err != nil {
				t.Fatal(err)
			}
			if len(lf.reads) > 2 {
				t.Fatalf("opening a file of %d items that ends in a root record issued %d reads %v (the trailer and the record are 2)", n, len(lf.reads), lf.reads)
			}
			lf.reads = nil
			op(s2.GetCollection("x"))
			for _, rd := range lf.reads {
				if touchesValue(rd) {
					t.Fatalf("%s on a re-opened store of %d items read value bytes: ReadAt(off=%d, len=%d)", name, n, rd[0], rd[1])
				}
			}
		}
	}
}

func TestReplay_Collection_Exist(t *testing.T) { rpLazy(t) }

// ---- neutral callbacks (C17) --------------------------------------------------------------------

func rpNeutralCallbacks() StoreCallbacks {
	return StoreCallbacks{
		BeforeItemWrite: func(c *Collection, i *Item) (*Item, error) { return i, nil },
		AfterItemRead:   func(c *Collection, i *Item) (*Item, error) { return i, nil },
		ItemAlloc:       func(c *Collection, n uint32) *Item { return &Item{Key: make([]byte, n)} },
		ItemAddRef:      func(c *Collection, i *Item) {},
		ItemDecRef:      func(c *Collection, i *Item) {},
		ItemValLength:   func(c *Collection, i *Item) int { return len(i.Val) },
		ItemValWrite: func(c *Collection, i *Item, w io.WriterAt, off int64) error {
			_, err := w.WriteAt(i.Val, off)
			return err
		},
		ItemValRead: func(c *Collection, i *Item, r io.ReaderAt, off int64, n uint32) error {
			i.Val = make([]byte, n)
			_, err := r.ReadAt(i.Val, off)
			return err
		},
	}
}

// rpPool: behaviourally neutral reference counting WITH recycling: when an item's count returns to zero its key and
// value bytes are overwritten (as a pooling allocator that reuses the buffers would do). A library that never
// touches an item it has released, and never releases one it still uses, cannot notice.
type rpPool struct{ cnt map[*Item]int }

func (p *rpPool) drop(i *Item) {
	p.cnt[i]--
	if p.cnt[i] == 0 {
		for k := range i.Key {
			i.Key[k] = 0xEE
		}
		for k := range i.Val {
			i.Val[k] = 0xEE
		}
	}
}
func (p *rpPool) callbacks() StoreCallbacks {
	return StoreCallbacks{
		ItemAlloc:  func(c *Collection, n uint32) *Item { i := &Item{Key: make([]byte, n)}; p.cnt[i] = 1; return i },
		ItemAddRef: func(c *Collection, i *Item) { p.cnt[i]++ },
		ItemDecRef: func(c *Collection, i *Item) { p.drop(i) },
	}
}

var rpTracePool *rpPool // non-nil while a trace is played under the recycling callbacks

// one fixed history, played with a given callback set; returns the trace of everything observable
func rpTrace(t *testing.T, cb StoreCallbacks) string {
	var tr bytes.Buffer
	f := &rpFile{}
	s, err := NewStoreEx(f, cb)
	if err != nil {
		t.Fatal(err)
	}
	c := s.SetCollection("x", nil)
	r := rand.New(rand.NewSource(7))
	for step := 0; step < 80; step++ {
		rpCases++
		k := []byte(fmt.Sprintf("k%02d", r.Intn(8)))
		switch r.Intn(8) {
		case 0, 1, 2:
			it := &Item{Key: append([]byte(nil), k...), Val: bytes.Repeat([]byte{'v'}, r.Intn(5)), Priority: int32(r.Intn(9))}
			if rpTracePool != nil {
				rpTracePool.cnt[it] = 1 // the application's own reference, for the duration of the call
			}
			err := c.SetItem(it)
			if rpTracePool != nil {
				rpTracePool.drop(it)
			}
			fmt.Fprintf(&tr, "set %s %v;", k, err)
		case 3:
			was, err := c.Delete(k)
			fmt.Fprintf(&tr, "del %s %v %v;", k, was, err)
		case 4:
			fmt.Fprintf(&tr, "setnil %v;", c.SetItem(&Item{Key: append([]byte(nil), k...), Val: nil, Priority: 1}) != nil)
		case 5:
			fmt.Fprintf(&tr, "flush %v;", s.Flush())
		case 6:
			s.Flush()
			s.Close()
			s, err = NewStoreEx(f, cb)
			if err != nil {
				t.Fatal(err)
			}
			c = s.GetCollection("x")
			fmt.Fprintf(&tr, "reopen;")
		default:
			c.EvictSomeItems()
		}
		v, err := c.Get(k)
		ni, nb, _ := c.GetTotals()
		fmt.Fprintf(&tr, "get %q %v exist %v totals %d %d;", v, err, c.Exist(k), ni, nb)
		c.VisitItemsAscend([]byte(""), true, func(i *Item) bool { fmt.Fprintf(&tr, "%s=%s/%d,", i.Key, i.Val, i.Priority); return true })
		if step%5 == 0 {
			n, err := c.Len()
			fmt.Fprintf(&tr, "len %d %v;", n, err)
			c.VisitItemsAscendBlockEx(false, nil, func(i *Item, d uint64) bool { fmt.Fprintf(&tr, "%s,", i.Key); return true })
			mi, _ := c.MinItem(true)
			if mi != nil {
				fmt.Fprintf(&tr, "min %s=%s;", mi.Key, mi.Val)
				s.ItemDecRef(c, mi)
			}
		}
	}
	fmt.Fprintf(&tr, "file %d bytes", len(f.b))
	return tr.String()
}

func rpNeutral(t *testing.T) {
	base := rpTrace(t, StoreCallbacks{})
	full := rpNeutralCallbacks()
	subsets := []StoreCallbacks{full,
		{ItemValLength: full.ItemValLength},
		{ItemValLength: full.ItemValLength, ItemValWrite: full.ItemValWrite},
		{ItemValRead: full.ItemValRead, ItemAlloc: full.ItemAlloc},
		{BeforeItemWrite: full.BeforeItemWrite, AfterItemRead: full.AfterItemRead},
		{ItemAlloc: full.ItemAlloc, ItemAddRef: full.ItemAddRef, ItemDecRef: full.ItemDecRef},
	}
	subsets = append(subsets, StoreCallbacks{}) // placeholder: #6 is the recycling reference counter, made below
	for k, cb := range subsets {
		rpTracePool = nil
		if k == len(subsets)-1 {
			rpTracePool = &rpPool{cnt: map[*Item]int{}}
			cb = rpTracePool.callbacks()
		}
		got := rpTrace(t, cb)
		rpTracePool = nil
		if got != base {
			i := 0
			for i < len(got) && i < len(base) && got[i] == base[i] {
				i++
			}
			lo := i - 60
			if lo < 0 {
				lo = 0
			}
			t.Fatalf("callback subset #%d changes an observable result; traces diverge at byte %d:\n  without callbacks: ...%s\n  with callbacks:    ...%s", k, i, base[lo:min(len(base), i+60)], got[lo:min(len(got), i+60)])
		}
	}
}

func TestReplay_Item_NumValBytes(t *testing.T)    { rpNeutral(t) }
func TestReplay_Store_ItemValRead(t *testing.T)   { rpNeutral(t) }
func TestReplay_Store_ItemValWrite(t *testing.T)  { rpNeutral(t) }
func TestReplay_Store_ItemAlloc(t *testing.T)     { rpNeutral(t) }
func TestReplay_itemLoc_NumBytes(t *testing.T)    { rpNeutral(t) }

// ---- file faults (C07) --------------------------------------------------------------------------

// rpFaulty fails exactly the k-th StoreFile call (counted over ReadAt, WriteAt, Stat) once; a failing
// WriteAt first writes half of its bytes (a torn write).
type rpFaulty struct {
	rpFile
	calls, failAt int
	hit           bool
}

func (f *rpFaulty) tick() bool {
	f.calls++
	if f.calls == f.failAt {
		f.hit = true
		return true
	}
	return false
}
func (f *rpFaulty) ReadAt(p []byte, off int64) (int, error) {
	if f.tick() {
		return 0, fmt.Errorf("injected read fault")
	}
	return f.rpFile.ReadAt(p, off)
}
func (f *rpFaulty) WriteAt(p []byte, off int64) (int, error) {
	if f.tick() {
		f.rpFile.WriteAt(p[:len(p)/2], off)
		return len(p) / 2, fmt.Errorf("injected write fault (torn)")
	}
	return f.rpFile.WriteAt(p, off)
}
func (f *rpFaulty) Stat() (os.FileInfo, error) {
	if f.tick() {
		return nil, fmt.Errorf("injected stat fault")
	}
	return f.rpFile.Stat()
}

func rpFaults(t *testing.T) {
	// a persisted base state
	base := &rpFile{}
	s0, _ := NewStore(base)
	c0 := s0.SetCollection("x", nil)
	model := map[string]string{}
	for k := 0; k < 9; k++ {
		key, val := fmt.Sprintf("k%02d", k), fmt.Sprintf("value-%d", k)
		c0.SetItem(&Item{Key: []byte(key), Val: []byte(val), Priority: int32(k*7%5 + 1)})
		model[key] = val
		if k == 4 {
			s0.Flush() // an older durable state lies below the last one
		}
	}
	s0.Flush()
	durable := fmt.Sprint(map[string]map[string]string{"x": model})

	type opT struct {
		name     string
		mutation bool
		run      func(s *Store, c *Collection) error
	}
	ops := []opT{
		{"GetItem with value", false, func(s *Store, c *Collection) error {
			i, err := c.GetItem([]byte("k04"), true)
			if err == nil && (i == nil || string(i.Val) != model["k04"]) {
				return fmt.Errorf("WRONG: GetItem succeeded with %v", i)
			}
			return err
		}},
		{"Get of an absent key", false, func(s *Store, c *Collection) error {
			v, err := c.Get([]byte("k04x"))
			if err == nil && v != nil {
				return fmt.Errorf("WRONG: Get of an absent key returned %q", v)
			}
			return err
		}},
		{"ascending visit with values", false, func(s *Store, c *Collection) error {
			got := map[string]string{}
			err := c.VisitItemsAscend([]byte(""), true, func(i *Item) bool { got[string(i.Key)] = string(i.Val); return true })
			if err == nil && fmt.Sprint(got) != fmt.Sprint(model) {
				return fmt.Errorf("WRONG: a visit reported success with %v", got)
			}
			return err
		}},
		{"MinItem", false, func(s *Store, c *Collection) error {
			i, err := c.MinItem(true)
			if err == nil && (i == nil || string(i.Key) != "k00") {
				return fmt.Errorf("WRONG: MinItem succeeded with %v", i)
			}
			return err
		}},
		{"GetTotals", false, func(s *Store, c *Collection) error {
			n, _, err := c.GetTotals()
			if err == nil && n != 9 {
				return fmt.Errorf("WRONG: GetTotals succeeded with %d items", n)
			}
			return err
		}},
		{"Len", false, func(s *Store, c *Collection) error {
			n, err := c.Len()
			if err == nil && n != 9 {
				return fmt.Errorf("WRONG: Len succeeded with %d", n)
			}
			return err
		}},
		{"Set", true, func(s *Store, c *Collection) error { return c.Set([]byte("k04"), []byte("changed")) }},
		{"Set of a new key", true, func(s *Store, c *Collection) error { return c.Set([]byte("k99"), []byte("new")) }},
		{"Delete", true, func(s *Store, c *Collection) error { _, err := c.Delete([]byte("k03")); return err }},
		{"Set then Flush", true, func(s *Store, c *Collection) error {
			if err := c.Set([]byte("k05"), []byte("to-be-flushed")); err != nil {
				return err
			}
			return s.Flush()
		}},
		{"Flush of several new items, retried on the same store", true, func(s *Store, c *Collection) error {
			ff := s.file.(*rpFaulty)
			at := ff.failAt
			ff.failAt = -1 // the Sets are not the subject here (a failed Set leaves marks: recorded finding D6)
			for q := 0; q < 3; q++ {
				if err := c.Set([]byte(fmt.Sprintf("n%d", q)), bytes.Repeat([]byte{byte('A' + q)}, 40+q)); err != nil {
					return err
				}
			}
			ff.calls, ff.failAt = 0, at
			return s.Flush()
		}},
		{"FlushRevert", true, func(s *Store, c *Collection) error { return s.FlushRevert() }},
	}
	guard := func(f func() error) (err error) {
		done := make(chan error, 1)
		go func() {
			defer func() {
				if r := recover(); r != nil {
					done <- fmt.Errorf("PANIC: %v", r)
				}
			}()
			done <- f()
		}()
		select {
		case err = <-done:
			return err
		case <-time.After(5 * time.Second):
			return fmt.Errorf("HANG: no return within 5 s")
		}
	}
	bad := func(err error) bool {
		return err != nil && (strings.HasPrefix(err.Error(), "WRONG") || strings.HasPrefix(err.Error(), "PANIC") || strings.HasPrefix(err.Error(), "HANG"))
	}
	// run on the SAME store once the file works again; returns the expected contents
	retries := map[string]func(s *Store, c *Collection) (string, error){
		"Flush of several new items, retried on the same store": func(s *Store, c *Collection) (string, error) {
			want := map[string]string{}
			for k, v := range model {
				want[k] = v
			}
			for q := 0; q < 3; q++ {
				want[fmt.Sprintf("n%d", q)] = string(bytes.Repeat([]byte{byte('A' + q)}, 40+q))
			}
			return fmt.Sprint(map[string]map[string]string{"x": want}), s.Flush()
		},
	}
	for k := 1; k <= 14; k++ {
		// a fault while opening: an error and no store, never an older state
		{
			rpCases++
			ff := &rpFaulty{rpFile: rpFile{b: append([]byte(nil), base.b...)}, failAt: k}
			var s *Store
			err := guard(func() error { var e error; s, e = NewStore(ff); return e })
			if bad(err) {
				t.Fatalf("open with call #%d failing: %v", k, err)
			}
			if ff.hit && err == nil {
				t.Fatalf("open with call #%d failing reported success (size %d)", k, s.size)
			}
			if !bytes.Equal(ff.b, base.b) {
				t.Fatalf("a failed open modified the file")
			}
		}
		for _, op := range ops {
			rpCases++
			ff := &rpFaulty{rpFile: rpFile{b: append([]byte(nil), base.b...)}}
			s, err := NewStore(ff)
			if err != nil {
				t.Fatal(err)
			}
			c := s.GetCollection("x")
			ff.calls, ff.failAt = 0, k
			err = guard(func() error { return op.run(s, c) })
			if bad(err) {
				t.Fatalf("%s with file call #%d failing: %v", op.name, k, err)
			}
			if ff.hit && err == nil {
				t.Fatalf("%s: file call #%d failed, but the call reported success", op.name, k)
			}
			ff.failAt = -1 // the file works again
			if !bytes.Equal(ff.b[:len(base.b)], base.b) && op.name != "FlushRevert" {
				t.Fatalf("%s with call #%d failing damaged bytes of the durable state", op.name, k)
			}
			if !op.mutation {
				// a failed read changes nothing: the same store still answers everything correctly
				if got := fmt.Sprint(rpContents(t, s)); got != durable {
					t.Fatalf("after %s failed at call #%d the store holds %v, want %v", op.name, k, got, durable)
				}
				continue
			}
			if err == nil {
				continue // the fault position lies beyond this operation
			}
			if retry := retries[op.name]; retry != nil {
				// C07: "once the file works again, all later operations, including a retried Flush, behave as if
				// the failed call had never been made" -- retried on the same in-memory store
				want, rerr := retry(s, c)
				if rerr != nil {
					t.Fatalf("%s: the retried Flush after a failure at call #%d failed: %v", op.name, k, rerr)
				}
				re, oerr := NewStore(&rpFile{b: append([]byte(nil), ff.b...)})
				if oerr != nil {
					t.Fatalf("%s: after the retried Flush (failure at call #%d) the file no longer opens: %v", op.name, k, oerr)
				}
				if got := fmt.Sprint(rpContents(t, re)); got != want {
					t.Fatalf("%s: after a failure at call #%d and a successful retry the re-opened file holds %v, want %v", op.name, k, got, want)
				}
				continue
			}
			// a failed mutation / Flush / FlushRevert: the durable states in the file are intact. (The in-memory
			// store is re-opened before going on: reclaim marks left by a failed mutation are the recorded finding D6.)
			re, rerr := NewStore(&rpFile{b: append([]byte(nil), ff.b...)})
			if rerr != nil {
				t.Fatalf("after %s failed at call #%d the file no longer opens: %v", op.name, k, rerr)
			}
			got := fmt.Sprint(rpContents(t, re))
			if op.name == "FlushRevert" {
				if got != durable && got != fmt.Sprint(map[string]map[string]string{}) {
					t.Fatalf("after a failed FlushRevert (call #%d) the re-opened file holds %v", k, got)
				}
				continue
			}
			if got != durable {
				t.Fatalf("after %s failed at call #%d the re-opened file holds %v, want the last flushed state %v", op.name, k, got, durable)
			}
			// and it keeps working: a retried change is durable
			rc := re.GetCollection("x")
			if err := rc.Set([]byte("retry"), []byte("ok")); err != nil {
				t.Fatalf("retry after %s: %v", op.name, err)
			}
			if err := re.Flush(); err != nil {
				t.Fatalf("retried Flush after %s failed at call #%d: %v", op.name, k, err)
			}
		}
	}
}

func TestReplay_Collection_Get(t *testing.T) { rpFaults(t) }

// ---- crash at any point (C03) -------------------------------------------------------------------

// every byte-granular prefix of the file between two completed flushes re-opens to exactly the earlier one
func rpCrash(t *testing.T) {
	for seed := 1; seed <= 4; seed++ {
		r := rand.New(rand.NewSource(int64(100 + seed)))
		f := &rpFile{}
		s, _ := NewStore(f)
		type fl struct {
			end   int
			state string
		}
		hist := []fl{{0, fmt.Sprint(map[string]map[string]string{})}}
		for k := 0; k < 4; k++ {
			for j := 0; j <= r.Intn(3); j++ {
				cn := fmt.Sprintf("c%d", r.Intn(2))
				if s.GetCollection(cn) == nil {
					s.SetCollection(cn, nil)
				}
				val := fmt.Sprintf("v%d-%d", k, j)
				if r.Intn(2) == 0 {
					// an uncommitted value may contain the magic markers and fragments of root records
					val += "3e4a5p3e4a5p0g1t2r0g1t2r" + string(bytes.Repeat([]byte{0, 0, 0, 4}, 2)) + "3e4a5p3e4a5p"
				}
				s.GetCollection(cn).Set([]byte(fmt.Sprintf("k%d", r.Intn(4))), []byte(val))
			}
			if k == 2 {
				s.RemoveCollection("c0")
			}
			if err := s.Flush(); err != nil {
				t.Fatal(err)
			}
			hist = append(hist, fl{len(f.b), fmt.Sprint(rpContents(t, s))})
		}
		for i := 0; i+1 < len(hist); i++ {
			for L := hist[i].end; L < hist[i+1].end; L++ {
				rpCases++
				re, err := NewStore(&rpFile{b: append([]byte(nil), f.b[:L]...)})
				if i == 0 && L > 0 {
					if err == nil {
						t.Fatalf("seed %d: a %d-byte prefix of the first flush (no flush ever completed) opened without error", seed, L)
					}
					continue
				}
				if err != nil {
					t.Fatalf("seed %d: the file cut at byte %d (inside flush #%d, which ends at %d) does not open: %v", seed, L, i+1, hist[i+1].end, err)
				}
				if got := fmt.Sprint(rpContents(t, re)); got != hist[i].state {
					t.Fatalf("seed %d: the file cut at byte %d (inside flush #%d) re-opens to %v, want the state of flush #%d: %v", seed, L, i+1, got, i, hist[i].state)
				}
				if L%37 == 0 {
					// the recovered store accepts further mutations and flushes, durably
					cc := re.SetCollection("after-crash", nil)
					cc.Set([]byte("a"), []byte("b"))
					if err := re.Flush(); err != nil {
						t.Fatalf("seed %d: Flush after recovering from a cut at %d: %v", seed, L, err)
					}
				}
			}
		}
	}
}

func TestReplay_Store_write(t *testing.T) { rpCrash(t) }


// ---- independent decoder of the v4 file layout (C14, C02) ---------------------------------------

type rpDecoded struct {
	items map[string]map[string]string // collection -> key -> "value|priority"
}

func rpDecodeFile(t *testing.T, f []byte) rpDecoded {
	end := rpGreatestRoot(f)
	out := rpDecoded{items: map[string]map[string]string{}}
	if end == 0 {
		return out
	}
	length := int(rpBE(f[end-16 : end-12]))
	o := end - length
	var roots map[string]struct {
		O int64  `json:"o"`
		L uint32 `json:"l"`
	}
	if err := json.Unmarshal(f[o+20:end-24], &roots); err != nil {
		t.Fatalf("root record JSON: %v", err)
	}
	var node func(off int64, l uint32, into map[string]string) (uint64, uint64)
	node = func(off int64, l uint32, into map[string]string) (uint64, uint64) {
		if off == 0 && l == 0 {
			return 0, 0
		}
		if l != 52 || int(off)+52 > len(f) {
			t.Fatalf("node record at %d has length %d (a v4 node record is 52 bytes)", off, l)
		}
		b := f[off : off+52]
		ploc := func(p []byte) (int64, uint32) { return int64(rpBE(p[0:8])), uint32(rpBE(p[8:12])) }
		io, il := ploc(b[0:12])
		lo, ll := ploc(b[12:24])
		ro, rl := ploc(b[24:36])
		numNodes, numBytes := rpBE(b[36:44]), rpBE(b[44:52])
		if lo >= off && !(lo == 0 && ll == 0) || ro >= off && !(ro == 0 && rl == 0) || io >= off {
			t.Fatalf("node record at %d points forward (children and item are written before the parent)", off)
		}
		if int(io)+16 > len(f) {
			t.Fatalf("item record at %d out of file", io)
		}
		h := f[io : io+16]
		total, kl, vl, pri := uint32(rpBE(h[0:4])), uint32(rpBE(h[4:8])), uint32(rpBE(h[8:12])), int32(uint32(rpBE(h[12:16])))
		if total != il || total != 16+kl+vl {
			t.Fatalf("item record at %d: total length %d, location says %d, header 16 + key %d + value %d", io, total, il, kl, vl)
		}
		key := string(f[io+16 : io+16+int64(kl)])
		val := string(f[io+16+int64(kl) : io+16+int64(kl)+int64(vl)])
		if _, dup := into[key]; dup {
			t.Fatalf("key %q occurs twice in the decoded tree", key)
		}
		into[key] = fmt.Sprintf("%s|%d", val, pri)
		ln, lb := node(lo, ll, into)
		rn, rb := node(ro, rl, into)
		if numNodes != ln+rn+1 || numBytes != lb+rb+uint64(kl+vl) {
			t.Fatalf("node record at %d records %d items / %d bytes; its decoded subtree has %d / %d", off, numNodes, numBytes, ln+rn+1, lb+rb+uint64(kl+vl))
		}
		return numNodes, numBytes
	}
	for name, loc := range roots {
		out.items[name] = map[string]string{}
		node(loc.O, loc.L, out.items[name])
	}
	return out
}

// what an independent decoder reconstructs from the file after every Flush is the store's state
func rpDecode(t *testing.T) {
	for seed := int64(1); seed <= 8; seed++ {
		r := rand.New(rand.NewSource(seed * 31))
		f := &rpFile{}
		s, _ := NewStore(f)
		model := map[string]map[string]string{}
		for step := 0; step < 50; step++ {
			// collection names are arbitrary strings: plain ones, and ones that JSON must escape (quote, backslash, control
			// characters, DEL, non-ASCII, a code point beyond the BMP) -- the root record's JSON is what a decoder parses
			cn := []string{"c0", "c1", "c2", "q\"uote\\", "soh\x01x", "del\x7f", "é\u2028", "\U0001F600"}[r.Intn(3)+3*int(seed%2)*(step%2)]
			switch op := r.Intn(12); {
			case op < 6:
				if s.GetCollection(cn) == nil {
					s.SetCollection(cn, nil)
					model[cn] = map[string]string{}
				}
				k, v, p := fmt.Sprintf("k%02d", r.Intn(8)), string(bytes.Repeat([]byte{byte('a' + step%26)}, r.Intn(9))), int32(r.Intn(50))
				if err := s.GetCollection(cn).SetItem(&Item{Key: []byte(k), Val: []byte(v), Priority: p}); err != nil {
					t.Fatal(err)
				}
				model[cn][k] = fmt.Sprintf("%s|%d", v, p)
			case op < 8:
				if c := s.GetCollection(cn); c != nil {
					k := fmt.Sprintf("k%02d", r.Intn(8))
					c.Delete([]byte(k))
					delete(model[cn], k)
				}
			case op == 8:
				if s.GetCollection(cn) != nil {
					s.RemoveCollection(cn)
					delete(model, cn)
				}
			case op == 9:
				for _, n := range s.GetCollectionNames() {
					s.GetCollection(n).EvictSomeItems()
				}
			default:
				rpCases++
				if err := s.Flush(); err != nil {
					t.Fatal(err)
				}
				got := rpDecodeFile(t, f.b)
				if fmt.Sprint(got.items) != fmt.Sprint(model) {
					t.Fatalf("seed %d step %d: an independent decoder reads %v from the flushed file, the store holds %v", seed, step, got.items, model)
				}
			}
		}
	}
}

func TestReplay_node_populateDiskStruct(t *testing.T) { rpDecode(t) }
func TestReplay_populateNode(t *testing.T)            { rpDecode(t) }
func TestReplay_Collection_writeNodes(t *testing.T)   { rpDecode(t) }
func TestReplay_Collection_writeItems(t *testing.T)   { rpDecode(t) }
