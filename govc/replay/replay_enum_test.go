package gkvlite

// Run-time evaluation of the contracts of the whole-collection enumerations (C16) on the real code: Len() is the
// number of items; VisitItemsAscendBlockEx (under block permutations) and VisitItemsRandom present every item
// exactly once, each an item of the collection with its value; complete inner enumerations run from the
// visitor of an outer one do not disturb it. Used to replay failed obligations of these functions.

import (
	"fmt"
	"testing"
)

func rpEnumStore(n int, persisted bool) (*Store, *Collection, map[string]string, error) {
	f := &rpFile{}
	s, err := NewStore(f)
	if err != nil {
		return nil, nil, nil, err
	}
	c := s.SetCollection("x", nil)
	want := map[string]string{}
	for k := 0; k < n; k++ {
		key, val := fmt.Sprintf("k%05d", (k*7919)%n), fmt.Sprintf("v%d", k)
		if err := c.Set([]byte(key), []byte(val)); err != nil {
			return nil, nil, nil, err
		}
		want[key] = val
	}
	if persisted {
		if err := s.Flush(); err != nil {
			return nil, nil, nil, err
		}
		s, err = NewStore(f)
		if err != nil {
			return nil, nil, nil, err
		}
		c = s.GetCollection("x")
	}
	return s, c, want, nil
}

func rpEnumCheck(what string, n int, seen map[string]int, vals map[string]string, want map[string]string, withValue bool) error {
	for k := range want {
		if seen[k] != 1 {
			return fmt.Errorf("%s, %d items: key %s was presented %d times", what, n, k, seen[k])
		}
		if withValue && vals[k] != want[k] {
			return fmt.Errorf("%s, %d items: key %s was presented with value %q, want %q", what, n, k, vals[k], want[k])
		}
	}
	for k := range seen {
		if _, ok := want[k]; !ok {
			return fmt.Errorf("%s, %d items: %s is not a key of the collection", what, n, k)
		}
	}
	return nil
}

func rpEnum(t *testing.T) {
	reverse := func(b [][]byte) [][]byte {
		for i, j := 0, len(b)-1; i < j; i, j = i+1, j-1 {
			b[i], b[j] = b[j], b[i]
		}
		return b
	}
	for _, n := range []int{0, 1, 2, 3, 4, 5, 7, 8, 33, 64, 1023, 1024, 1025, 2049} {
		for _, persisted := range []bool{false, true} {
			rpCases++
			_, c, want, err := rpEnumStore(n, persisted)
			if err != nil {
				t.Fatal(err)
			}
			if l, err := c.Len(); err != nil || l != int64(len(want)) {
				t.Fatalf("Len() = %d, %v on a collection of %d items (persisted and re-opened: %v)", l, err, len(want), persisted)
			}
			if num, leng, err := c.determineBlocks(); err != nil || (n > 0 && (num < 1 || leng < 1 || num > MaxBlockCnt || num*(leng+1) < n)) {
				t.Fatalf("determineBlocks() = %d, %d, %v for %d items", num, leng, err, n)
			}
			for pi, perm := range []BlockMangler{nil, reverse, RandBm} {
				for _, withValue := range []bool{false, true} {
					seen, vals := map[string]int{}, map[string]string{}
					err := c.VisitItemsAscendBlockEx(withValue, perm, func(i *Item, d uint64) bool {
						seen[string(i.Key)]++
						vals[string(i.Key)] = string(i.Val)
						return true
					})
					if err != nil && n > 0 {
						t.Fatalf("VisitItemsAscendBlockEx on %d items: %v", n, err)
					}
					if e := rpEnumCheck(fmt.Sprintf("VisitItemsAscendBlockEx (permutation %d, withValue %v, re-opened %v)", pi, withValue, persisted), n, seen, vals, want, withValue); e != nil {
						t.Fatal(e)
					}
				}
			}
			seen, vals := map[string]int{}, map[string]string{}
			err = c.VisitItemsRandom(func(i *Item, d uint64) bool {
				seen[string(i.Key)]++
				vals[string(i.Key)] = string(i.Val)
				return true
			})
			if err != nil && n > 0 {
				t.Fatalf("VisitItemsRandom on %d items: %v", n, err)
			}
			if e := rpEnumCheck(fmt.Sprintf("VisitItemsRandom (re-opened %v)", persisted), n, seen, vals, want, true); e != nil {
				t.Fatal(e)
			}
			if n == 0 || n > 64 {
				continue
			}
			// inner enumerations run from the visitor of an outer one
			outer, calls := map[string]int{}, 0
			var inner error
			err = c.VisitItemsAscendBlockEx(false, reverse, func(i *Item, d uint64) bool {
				outer[string(i.Key)]++
				calls++
				if calls == 2 || (n == 1 && calls == 1) {
					s1, s2 := map[string]int{}, map[string]int{}
					e1 := c.VisitItemsAscendBlockEx(false, reverse, func(j *Item, d uint64) bool { s1[string(j.Key)]++; return true })
					e2 := c.VisitItemsRandom(func(j *Item, d uint64) bool { s2[string(j.Key)]++; return true })
					if e1 != nil || e2 != nil {
						inner = fmt.Errorf("inner enumerations failed: %v %v", e1, e2)
					} else if e := rpEnumCheck("inner VisitItemsAscendBlockEx", n, s1, nil, want, false); e != nil {
						inner = e
					} else if e := rpEnumCheck("inner VisitItemsRandom", n, s2, nil, want, false); e != nil {
						inner = e
					}
				}
				return true
			})
			if err != nil || inner != nil {
				t.Fatalf("nested enumerations on %d items: %v %v", n, err, inner)
			}
			if e := rpEnumCheck("outer VisitItemsAscendBlockEx with inner enumerations run from its visitor", n, outer, nil, want, false); e != nil {
				t.Fatal(e)
			}
		}
	}
}

func TestReplay_Collection_VisitItemsAscendBlockEx(t *testing.T)   { rpEnum(t) }
func TestReplay_Collection_VisitItemsAscendBlockEx_1(t *testing.T) { rpEnum(t) }
func TestReplay_Collection_VisitItemsAscendBlockEx_2(t *testing.T) { rpEnum(t) }
func TestReplay_Collection_VisitItemsRandom(t *testing.T)          { rpEnum(t) }
func TestReplay_Collection_VisitItemsRandom_1(t *testing.T)        { rpEnum(t) }
func TestReplay_Collection_VisitItemsRandom_2(t *testing.T)        { rpEnum(t) }
func TestReplay_RandBm(t *testing.T)                               { rpEnum(t) }
func TestReplay_Collection_determineBlocks(t *testing.T)           { rpEnum(t) }
func TestReplay_Collection_Len(t *testing.T)                       { rpLazy(t); rpEnum(t) }
func TestReplay_Collection_Len_1(t *testing.T)                     { rpEnum(t) }
