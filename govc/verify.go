package main

import (
	"path/filepath"
	"crypto/sha256"
	"encoding/hex"
	"fmt"
	"go/token"
	"go/types"
	"os"
	"regexp"
	"sort"
	"strings"
	"sync"

	"golang.org/x/tools/go/packages"
	"golang.org/x/tools/go/ssa"
	"golang.org/x/tools/go/ssa/ssautil"
)

type heapArg struct{ name, esort string }

type preludeFn struct {
	smt       string
	argSorts  []string
	resSort   string
	heapArgs  []heapArg
	ghostArgs []string
}

type Verifier struct {
	repo    string
	fset    *token.FileSet
	prog    *ssa.Program
	pkg     *ssa.Package
	cf      *ContractFile
	funcs   map[string]*ssa.Function // short name -> function (incl. closures)
	prelude map[string]preludeFn
	preludeText string

	mu           sync.Mutex
	locTags      map[string]int
	globalRefs   map[string]bool
	loopCache    map[*ssa.Function]map[*ssa.BasicBlock]int
	callOrdCache map[*ssa.Function]map[ssa.Instruction]int
	recGroup     map[string]string
	unsupported  map[string][]string
	missing      map[string][]string
	intrinsics   map[string]map[string]bool
	mathInt      map[string]bool
	uses         map[string]map[string]bool // caller -> callee contracts used
	trustedUsed  map[string]bool
	postulated   map[string]bool
	relied       map[string][]string
	feasQueries  int
	funcIDs      map[string]int
	inlinedNoContract map[string]bool
	conforms     map[string][]conformTo // function value -> function-type contracts it is used under
}

func loadVerifier(repo, contractPath string) (*Verifier, error) {
	cfg := &packages.Config{Mode: packages.LoadAllSyntax, Dir: repo, BuildFlags: []string{"-tags=verif"},
		Env: append(os.Environ(), "GOFLAGS=-mod=mod", "GOPROXY=off", "GOSUMDB=off", "GOTOOLCHAIN=local")}
	pkgs, err := packages.Load(cfg, ".")
	if err != nil {
		return nil, err
	}
	if len(pkgs) != 1 {
		return nil, fmt.Errorf("expected one package, got %d", len(pkgs))
	}
	if len(pkgs[0].Errors) > 0 {
		return nil, fmt.Errorf("package does not type-check: %v", pkgs[0].Errors[0])
	}
	prog, spkgs := ssautil.AllPackages(pkgs, ssa.GlobalDebug)
	prog.Build()
	v := &Verifier{repo: repo, fset: pkgs[0].Fset, prog: prog, pkg: spkgs[0], funcs: map[string]*ssa.Function{},
		locTags: map[string]int{}, globalRefs: map[string]bool{}, loopCache: map[*ssa.Function]map[*ssa.BasicBlock]int{},
		callOrdCache: map[*ssa.Function]map[ssa.Instruction]int{}, recGroup: map[string]string{}, unsupported: map[string][]string{},
		missing: map[string][]string{}, intrinsics: map[string]map[string]bool{}, mathInt: map[string]bool{}, uses: map[string]map[string]bool{},
		trustedUsed: map[string]bool{}, prelude: map[string]preludeFn{}}
	for fn := range ssautil.AllFunctions(prog) {
		if fn.Pkg == v.pkg || (fn.Parent() != nil && rootParent(fn).Pkg == v.pkg) {
			if fn.Synthetic != "" && !strings.HasPrefix(fn.Synthetic, "package init") {
				continue
			}
			v.funcs[shortName(fn)] = fn
		}
	}
	cf, err := parseContractFile(contractPath)
	if err != nil {
		return nil, err
	}
	v.cf = cf
	if err := v.loadPrelude(); err != nil {
		return nil, err
	}
	v.buildConformance()
	return v, nil
}

func rootParent(fn *ssa.Function) *ssa.Function {
	for fn.Parent() != nil {
		fn = fn.Parent()
	}
	return fn
}

func (v *Verifier) locTag(name string) int {
	v.mu.Lock()
	defer v.mu.Unlock()
	if t, ok := v.locTags[name]; ok {
		return t
	}
	t := len(v.locTags) + 1
	v.locTags[name] = t
	return t
}
// funcID interns a function constant as a positive reference (900000+k).
func (v *Verifier) funcID(name string) int {
	v.mu.Lock()
	defer v.mu.Unlock()
	if v.funcIDs == nil {
		v.funcIDs = map[string]int{}
	}
	if id, ok := v.funcIDs[name]; ok {
		return id
	}
	id := 900000 + len(v.funcIDs)
	v.funcIDs[name] = id
	return id
}

func (v *Verifier) noteGlobalRef(name string) {
	v.mu.Lock()
	v.globalRefs[name] = true
	v.mu.Unlock()
}
func (v *Verifier) noteUnsupported(fn, what string) {
	v.mu.Lock()
	defer v.mu.Unlock()
	for _, w := range v.unsupported[fn] {
		if w == what {
			return
		}
	}
	v.unsupported[fn] = append(v.unsupported[fn], what)
}
func (v *Verifier) noteMissing(fn, what string) {
	v.mu.Lock()
	defer v.mu.Unlock()
	for _, w := range v.missing[fn] {
		if w == what {
			return
		}
	}
	v.missing[fn] = append(v.missing[fn], what)
}
func (v *Verifier) noteIntrinsic(fn, name string) {
	v.mu.Lock()
	defer v.mu.Unlock()
	if v.intrinsics[fn] == nil {
		v.intrinsics[fn] = map[string]bool{}
	}
	v.intrinsics[fn][name] = true
}
func (v *Verifier) noteMathInt(fn string) {
	v.mu.Lock()
	v.mathInt[fn] = true
	v.mu.Unlock()
}
func (v *Verifier) notePostulate(name string) {
	v.mu.Lock()
	if v.postulated == nil {
		v.postulated = map[string]bool{}
	}
	v.postulated[name] = true
	v.mu.Unlock()
}
// noteInlinedNoContract records that a contract-less package function was executed in place (reported in the evidence).
func (v *Verifier) noteInlinedNoContract(caller, callee string) {
	v.mu.Lock()
	defer v.mu.Unlock()
	if v.inlinedNoContract == nil {
		v.inlinedNoContract = map[string]bool{}
	}
	v.inlinedNoContract[callee+" (in "+caller+")"] = true
}

func (v *Verifier) noteRelies(name string, cs []*Clause) {
	v.mu.Lock()
	if v.relied == nil {
		v.relied = map[string][]string{}
	}
	var ss []string
	for _, c := range cs {
		ss = append(ss, c.Src)
	}
	v.relied[name] = ss
	v.mu.Unlock()
}
func (v *Verifier) noteUse(caller, callee string, con *Contract) {
	v.mu.Lock()
	defer v.mu.Unlock()
	if v.uses[caller] == nil {
		v.uses[caller] = map[string]bool{}
	}
	v.uses[caller][callee] = true
	if con.Trusted || con.Kind != "func" {
		v.trustedUsed[con.Kind+" "+callee] = true
	}
}

// ---- prelude ----

var specLineRe = regexp.MustCompile(`^;@spec\s+(\S+)\s+smt=(\S+)\s+args=(\S*)\s+res=(\S+)(?:\s+heap=(\S+))?(?:\s+ghost=(\S+))?`)

func (v *Verifier) loadPrelude() error {
	path := os.Getenv("GOVC_PRELUDE")
	if path == "" {
		path = "/verif/govc/prelude.smt2"
	}
	b, err := os.ReadFile(path)
	if err != nil {
		return err
	}
	v.preludeText = string(b)
	for _, line := range strings.Split(v.preludeText, "\n") {
		m := specLineRe.FindStringSubmatch(strings.TrimSpace(line))
		if m == nil {
			continue
		}
		pf := preludeFn{smt: m[2], resSort: strings.ReplaceAll(m[4], "_", " ")}
		if m[5] != "" {
			for _, h := range strings.Split(m[5], ",") {
				hs := strings.SplitN(h, ":", 2)
				es := SInt
				if len(hs) == 2 {
					es = strings.ReplaceAll(hs[1], "_", " ")
				}
				pf.heapArgs = append(pf.heapArgs, heapArg{hs[0], es})
				pf.argSorts = append(pf.argSorts, "(Array Int "+es+")")
			}
		}
		if m[6] != "" {
			for _, g := range strings.Split(m[6], ",") {
				pf.ghostArgs = append(pf.ghostArgs, g)
				pf.argSorts = append(pf.argSorts, "?")
			}
		}
		if m[3] != "" {
			for _, a := range strings.Split(m[3], ",") {
				pf.argSorts = append(pf.argSorts, strings.ReplaceAll(a, "_", " "))
			}
		}
		v.prelude[m[1]] = pf
	}
	return nil
}

// ---- verifying one function ----

type FuncResult struct {
	Name        string
	Obls        []*Obligation
	Groups      []*Group
	Errors      []string
	Paths       int
	Returns     int
	SSAHash     string
	ContractTxt string
}

func (v *Verifier) ssaHash(fn *ssa.Function) string {
	var sb strings.Builder
	fn.WriteTo(&sb)
	for _, af := range fn.AnonFuncs {
		af.WriteTo(&sb)
	}
	s := sb.String()
	// drop location comments so that moving code does not change the hash
	var keep []string
	for _, l := range strings.Split(s, "\n") {
		if strings.HasPrefix(l, "# Location:") {
			continue
		}
		keep = append(keep, l)
	}
	h := sha256.Sum256([]byte(strings.Join(keep, "\n")))
	return hex.EncodeToString(h[:8])
}

func (v *Verifier) verifyFunc(name string) *FuncResult {
	fn := v.funcs[name]
	con := v.cf.Funcs[name]
	res := &FuncResult{Name: name}
	if fn == nil {
		res.Errors = append(res.Errors, "stale contract: no function "+name+" in the package")
		return res
	}
	res.SSAHash = v.ssaHash(fn)
	if con != nil {
		res.ContractTxt = con.Text
	}
	x := &Exec{v: v, fn: fn, con: con, syms: map[string]string{}, heapSorts: map[string]string{}, locfns: map[string]locFn{},
		strs: map[string]int{}, maxPaths: 4000, ptrArrays: map[string]string{}, defined: map[string]bool{}}
	if con != nil {
		x.props = con.Props
	}
	// reference-valued fields of the package's struct types are known up front, so that closure
	// facts after a havoc do not depend on whether the field was accessed earlier on the path
	if fn.Pkg != nil && fn.Pkg.Pkg != nil {
		sc := fn.Pkg.Pkg.Scope()
		for _, nm := range sc.Names() {
			tn, ok := sc.Lookup(nm).(*types.TypeName)
			if !ok {
				continue
			}
			stt, ok := tn.Type().Underlying().(*types.Struct)
			if !ok {
				continue
			}
			for i := 0; i < stt.NumFields(); i++ {
				f := stt.Field(i)
				if !isStruct(f.Type()) && !isArray(f.Type()) {
					x.notePtr(typeName(tn.Type())+"."+f.Name(), f.Type())
				}
			}
		}
	}
	// location functions mentioned by the prelude are always declared
	x.preludeLoc = map[string]bool{}
	for sym := range x.usedSymbols(v.preludeText) {
		if strings.HasSuffix(sym, "@|") {
			n := strings.Trim(sym, "|")
			x.preludeLoc[sym] = true
			if _, ok := x.locfns[n]; !ok {
				x.locfns[n] = locFn{name: n, tag: v.locTag(n)}
			}
		}
	}
	x.decl("now!0", SInt)
	st := &State{x: x, heap: map[string]string{}, ghost: map[string]string{}, now: "now!0"}
	fr := &Frame{fn: fn, vals: map[ssa.Value]Val{}, block: nil}
	st.frames = []*Frame{fr}
	st.assume("(>= now!0 0)") // package-level objects carry birth -1
	if len(fn.Blocks) == 0 {
		res.Errors = append(res.Errors, "no body")
		return res
	}
	fr.block = fn.Blocks[0]
	for _, p := range fn.Params {
		fr.vals[p] = x.symbolic(st, p.Type(), p.Name())
	}
	for _, fv := range fn.FreeVars {
		fr.bind = append(fr.bind, x.symbolic(st, fv.Type(), fv.Name()))
	}
	if len(fn.FreeVars) > 0 || fn.Parent() != nil {
		// a closure verified as a function: `self` is the closure value; it was made before this call and
		// after every variable it captured
		x.selfTerm = x.fresh("self", SInt)
		st.assume(app(">", x.selfTerm, "0"))
		st.assume(eq(app("codeOf", x.selfTerm), num(int64(v.funcID(shortName(fn))))))
		st.assume(app("<", app("birth", x.selfTerm), st.now))
		for _, b := range fr.bind {
			if b.K == VTerm {
				st.assume(app("<", app("birth", b.T), app("birth", x.selfTerm)))
			}
		}
		x.trackAxiom(st, con, x.selfTerm, fn, fr.bind)
	}
	st.entry = st.snapshot()
	x.conformEntry(st, fn, con)
	env := x.envFor(st)
	// global invariants (constants of the package established by init)
	if !strings.HasPrefix(name, "init") {
		for _, g := range v.cf.Globals {
			t, err := env.evalBool(g.E)
			if err != nil {
				x.errorf("global invariant %q: %v", g.Src, err)
				continue
			}
			st.assume(t)
		}
	}
	if con != nil {
		for _, rq := range append(append(append([]*Clause(nil), con.Requires...), con.Relies...), con.Captures...) {
			t, err := env.evalBool(rq.E)
			if err != nil {
				x.errorf("requires %q: %v", rq.Src, err)
				continue
			}
			st.assume(t)
		}
		if len(con.Relies) > 0 {
			v.noteRelies(name, con.Relies)
		}
		if con.Decr != nil {
			d, err := env.evalTerm(con.Decr)
			if err != nil {
				x.errorf("decreases: %v", err)
			} else {
				s := x.fresh("variant0", SInt)
				st.assume(eq(s, d.T))
				x.entryDecr = s
			}
		}
		ts, err := env.evalTargets(con.Modifies)
		if err != nil {
			x.errorf("modifies: %v", err)
		}
		x.entryTargets = map[string][]string{}
		x.entryWhole = map[string]bool{}
		for _, t := range ts {
			key := t.array
			if t.ghost {
				x.entryWhole["ghost:"+key] = true
				continue
			}
			if t.whole {
				x.entryWhole[key] = true
			} else if t.fresh {
				x.entryTargets[key] = append(x.entryTargets[key], "fresh")
			} else if t.older != "" {
				x.entryTargets[key] = append(x.entryTargets[key], "older:"+t.older)
			} else {
				x.entryTargets[key] = append(x.entryTargets[key], t.ref)
			}
		}
	}
	if name == "init" {
		// the package initialiser is verified for its first (and only effective) run
		st.assume(not(sel(st.H("G.init$guard", SBool), "0")))
		if x.entryWhole == nil {
			x.entryWhole = map[string]bool{}
		}
		x.entryWhole["G.init$guard"] = true
	}
	st.entry = st.snapshot()
	// ghost prologue: `after entry sets g := e` clauses run once, in order, before the body
	// (old() in them and in the postconditions still denotes the state at entry)
	if con != nil && len(con.After["entry"]) > 0 {
		x.applyAfter(st, "entry", st.entry, fn.Pos())
	}
	// vacuity: the precondition must be satisfiable
	x.obls = append(x.obls, &Obligation{Name: name + "#pre.sat", Func: name, Kind: "cover", Tags: x.tagsOf(nil), Src: "precondition is satisfiable",
		pre: st.facts, Goal: "false", Expect: "sat"})
	x.run(st)
	res.Obls = x.obls
	res.Errors = x.errors
	res.Paths = x.paths
	res.Returns = x.returns
	res.Groups = x.makeGroups(res.Obls)
	return res
}

// finish: checks at a return of the function under verification.
func (x *Exec) finish(st *State, res Val, pos token.Pos) {
	con := x.con
	fn := x.fn
	env := x.envFor(st)
	env.old = st.entry
	rn := resultNames(fn)
	sig := fn.Signature.Results()
	switch sig.Len() {
	case 0:
	case 1:
		env.vars["result"] = res
		if rn[0] != "" && rn[0] != "_" {
			env.vars[rn[0]] = res
		}
	default:
		for k := 0; k < sig.Len(); k++ {
			env.vars[fmt.Sprintf("result%d", k)] = res.Elems[k]
			if rn[k] != "" && rn[k] != "_" {
				env.vars[rn[k]] = res.Elems[k]
			}
		}
	}
	if x.returns < 40 {
		x.obls = append(x.obls, &Obligation{Name: x.shortFn(fn) + "#cover.return", Func: x.shortFn(fn), Kind: "cover", Tags: x.tagsOf(nil),
			Src: "some return is reachable under the precondition", pre: st.facts, Goal: "false", Expect: "sat", Path: strings.Join(st.path, " ")})
	}
	if con == nil {
		return
	}
	for k, en := range append(append([]*Clause(nil), con.Ensures...), con.Proves...) {
		g, err := env.evalBool(en.E)
		if err != nil {
			x.errorf("ensures %q: %v", en.Src, err)
			continue
		}
		x.emit(st, "post", "post."+clauseName(en, k), g, x.tagsOf(en.Tags), en.Src, pos)
	}
	x.conformFinish(st, fn, res, pos)
	if con.HasMod {
		x.frameCheck(st, st.entry, x.entryTargets, x.entryWhole, "frame", nil)
	}
	// C05 L2: every function returns with the lock set it was entered with
	if cur, ok := st.ghost["locks"]; ok && cur != st.entry.G(x, "locks") && !x.entryWhole["ghost:locks"] {
		x.emit(st, "ghost", "ghost.locks", eq(cur, st.entry.G(x, "locks")), []string{"C05", "C18"}, "the function returns with exactly the locks it was entered with", pos)
	}
}

// ---- script construction ----

const basePrelude = `(set-option :smt.mbqi false)
(declare-datatypes ((Slice 0)) (((mkslice (sarr Int) (soff Int) (slen Int) (scap Int)))))
(define-fun nilslice () Slice (mkslice 0 0 0 0))
(define-fun wfslice ((s Slice)) Bool (and (>= (sarr s) 0) (>= (soff s) 0) (>= (slen s) 0) (<= (slen s) (scap s)) (<= (+ (soff s) (scap s)) 281474976710656) (=> (= (sarr s) 0) (and (= (soff s) 0) (= (scap s) 0)))))
(declare-fun birth (Int) Int)
(declare-fun tagof (Int) Int)
(declare-fun strlen (Int) Int)
(declare-fun strbyte (Int Int) Int)
(declare-fun bitand (Int Int) Int)
(declare-fun bitor (Int Int) Int)
(declare-fun bitxor (Int Int) Int)
(declare-fun bitandnot (Int Int) Int)
(declare-fun shl (Int Int) Int)
(declare-fun shr (Int Int) Int)
(declare-fun maplen ((Array Int Bool)) Int)
(define-fun godiv ((a Int) (b Int)) Int (ite (>= a 0) (ite (> b 0) (div a b) (- (div a (- b)))) (ite (> b 0) (- (div (- a) b)) (div (- a) (- b)))))
(define-fun gomod ((a Int) (b Int)) Int (- a (* b (godiv a b))))
(assert (= (strlen 0) 0))
(assert (= (birth 0) (- 1)))
`

func (x *Exec) script(o *Obligation) string {
	var sb strings.Builder
	texts := append([]string{o.Goal}, o.Facts...)
	sb.WriteString(x.header(texts))
	for _, f := range o.Facts {
		sb.WriteString("(assert ")
		sb.WriteString(f)
		sb.WriteString(")\n")
	}
	if o.Expect == "unsat" {
		sb.WriteString("(assert (not ")
		sb.WriteString(o.Goal)
		sb.WriteString("))\n")
	}
	sb.WriteString("(check-sat)\n")
	return sb.String()
}

// header: prelude, location functions and declarations for the symbols used in texts.
func (x *Exec) header(texts []string) string {
	var sb strings.Builder
	used := x.usedSymbols(texts...)
	sb.WriteString(basePrelude)
	// location functions
	var lfs []string
	for n := range x.locfns {
		lfs = append(lfs, n)
	}
	preludeLoc := x.preludeLoc
	sort.Strings(lfs)
	for _, n := range lfs {
		lf := x.locfns[n]
		q := quote(lf.name)
		if !used[q] && !preludeLoc[q] {
			continue
		}
		inv := quote(lf.name + "^-1")
		fmt.Fprintf(&sb, "(declare-fun %s (Int) Int)\n(declare-fun %s (Int) Int)\n", q, inv)
		fmt.Fprintf(&sb, "(assert (forall ((r Int)) (! (and (= (%s (%s r)) r) (= (tagof (%s r)) %d) (= (birth (%s r)) (birth r)) (> (%s r) 0)) :pattern ((%s r)))))\n",
			inv, q, q, lf.tag, q, q, q)
	}
	sb.WriteString(x.v.preludeText)
	sb.WriteString("\n")
	// global references: distinct, non-nil, allocated before everything
	var grefs []string
	for _, s := range sortedKeys(used) {
		if strings.HasPrefix(s, "|&") || strings.HasPrefix(s, "&") {
			grefs = append(grefs, s)
		}
	}
	for i, g := range grefs {
		fmt.Fprintf(&sb, "(declare-const %s Int)\n(assert (and (> %s 0) (= (tagof %s) %d) (= (birth %s) (- 1))))\n", g, g, g, 1000+i, g)
	}
	for _, s := range x.symOrder {
		if used[s] && !(strings.HasPrefix(s, "|&") || strings.HasPrefix(s, "&")) {
			fmt.Fprintf(&sb, "(declare-const %s %s)\n", s, x.syms[s])
			if strings.HasSuffix(s, "#0|") || strings.HasSuffix(s, "#0") {
				// closure of the entry heap under allocation: every reference stored in the
				// heap at entry was allocated before entry
				name := strings.TrimSuffix(strings.Trim(s, "|"), "#0")
				switch x.ptrArrays[name] {
				case "ptr":
					fmt.Fprintf(&sb, "(assert (forall ((r Int)) (! (or (= (select %s r) 0) (< (birth (select %s r)) now!0)) :pattern ((select %s r)))))\n", s, s, s)
				case "slice":
					fmt.Fprintf(&sb, "(assert (forall ((r Int)) (! (or (= (sarr (select %s r)) 0) (< (birth (sarr (select %s r))) now!0)) :pattern ((select %s r)))))\n", s, s, s)
				}
			}
			if s == "|mem.ptr#0|" || s == "|map.ptr#0|" {
				fmt.Fprintf(&sb, "(assert (forall ((a Int) (i Int)) (! (or (= (select (select %s a) i) 0) (< (birth (select (select %s a) i)) now!0)) :pattern ((select (select %s a) i)))))\n", s, s, s)
			}
			if strings.HasPrefix(s, "|fbytes#") && !x.defined[s] {
				fmt.Fprintf(&sb, "(assert (forall ((a Int) (i Int)) (! (and (<= 0 (select (select %s a) i)) (< (select (select %s a) i) 256)) :pattern ((select (select %s a) i)))))\n", s, s, s)
			}
			if strings.HasPrefix(s, "|mem.byte#") && !x.defined[s] {
				// type invariant of byte memory: every cell holds a value in 0..255
				fmt.Fprintf(&sb, "(assert (forall ((a Int) (i Int)) (! (and (<= 0 (select (select %s a) i)) (< (select (select %s a) i) 256)) :pattern ((select (select %s a) i)))))\n", s, s, s)
			}
		}
	}
	return sb.String()
}

var _ = types.Typ

// feasible asks the solver whether the current path facts together with cond are
// satisfiable; only a definite `unsat` prunes. Used to cut infeasible arms at forks.
func (x *Exec) feasible(st *State, cond string) bool {
	if os.Getenv("GOVC_NOPRUNE") != "" {
		return true
	}
	o := &Obligation{Facts: append(st.factList(), cond), Goal: "false", Expect: "sat", Script: ""}
	script := x.script(o)
	h := sha256.Sum256([]byte(script))
	dir := filepath.Join("/verif/.work", fmt.Sprintf("feas-%d", os.Getpid()))
	os.MkdirAll(dir, 0755)
	path := filepath.Join(dir, hex.EncodeToString(h[:10]))
	r := runSolverArgs(solvers[0], path, script, []string{"-t:250"})
	os.Remove(path + ".z3-new.smt2")
	x.v.mu.Lock()
	x.v.feasQueries++
	x.v.mu.Unlock()
	return r.status != "unsat"
}
