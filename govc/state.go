package main

import (
	"fmt"
	"go/types"
	"sort"
	"strings"

	"golang.org/x/tools/go/ssa"
)

type factNode struct {
	line string
	prev *factNode
	n    int
}

// Snapshot records heap/ghost versions at a program point (for old()).
type Snapshot struct {
	heap  map[string]string
	ghost map[string]string
	now   string
}

type activeLoop struct {
	head    *ssa.BasicBlock
	ord     int
	snap    *Snapshot // state right after havoc (loop head state)
	decr    string    // variant value at head
	targets map[string][]string
	whole   map[string]bool
	spec    *LoopSpec
}

type deferred struct {
	call *ssa.CallCommon
	args []Val // evaluated at defer time
	fn   Val
	pos  string
}

type namedVal struct {
	v      ssa.Value
	isAddr bool
}

type Frame struct {
	fn      *ssa.Function
	vals    map[ssa.Value]Val
	block   *ssa.BasicBlock
	idx     int
	prev    *ssa.BasicBlock
	defers  []deferred
	bind    []Val // free variable bindings (closures)
	loops   []*activeLoop
	names   map[string]namedVal // source identifiers seen in DebugRef instructions
	callPos *ssa.Call // call instruction in the parent frame being inlined (nil for top)
	isDefer bool      // inlined as a deferred call: result discarded, resume defers
	depth   int
}

func (f *Frame) clone() *Frame {
	g := *f
	g.vals = make(map[ssa.Value]Val, len(f.vals))
	for k, v := range f.vals {
		g.vals[k] = v
	}
	g.names = make(map[string]namedVal, len(f.names))
	for k, v := range f.names {
		g.names[k] = v
	}
	g.defers = append([]deferred(nil), f.defers...)
	g.loops = append([]*activeLoop(nil), f.loops...)
	return &g
}

type State struct {
	x      *Exec
	facts  *factNode
	heap   map[string]string
	ghost  map[string]string
	now    string
	frames []*Frame
	path   []string
	entry  *Snapshot
	calln  map[string]int // per-callee occurrence counters are static; this counts dynamic names to disambiguate
	maps   int
	tainted string // non-empty: path left the supported subset (reason)
	names   map[string]string // term -> name given to it on this path
	lits    map[string]bool   // facts assumed on this path (for syntactic branch pruning)
	cells   []cellRec         // scalar cells (locals whose address is taken: captured variables) allocated on this path
}

// cellRec: one `new T (x)` of a non-struct, non-array local. A callee cannot reach such a cell unless its
// address escapes (see cellPrivate), so a callee's whole-array `modifies cell.<sort>` leaves it alone.
type cellRec struct {
	ptr   string
	es    string
	alloc *ssa.Alloc
}

func (st *State) clone() *State {
	n := *st
	n.heap = make(map[string]string, len(st.heap))
	for k, v := range st.heap {
		n.heap[k] = v
	}
	n.ghost = make(map[string]string, len(st.ghost))
	for k, v := range st.ghost {
		n.ghost[k] = v
	}
	n.frames = make([]*Frame, len(st.frames))
	for i, f := range st.frames {
		n.frames[i] = f.clone()
	}
	n.path = append([]string(nil), st.path...)
	n.cells = append([]cellRec(nil), st.cells...)
	n.names = make(map[string]string, len(st.names))
	for k, v := range st.names {
		n.names[k] = v
	}
	n.lits = make(map[string]bool, len(st.lits))
	for k, v := range st.lits {
		n.lits[k] = v
	}
	return &n
}

func (st *State) top() *Frame { return st.frames[len(st.frames)-1] }

func (st *State) assume(f string) {
	if f == "true" || f == "" {
		return
	}
	n := 0
	if st.facts != nil {
		n = st.facts.n
	}
	st.facts = &factNode{line: f, prev: st.facts, n: n + 1}
	if len(f) < 200 {
		if st.lits == nil {
			st.lits = map[string]bool{}
		}
		st.lits[f] = true
	}
}

func (st *State) hasFact(f string) bool { return st.lits[f] }

func (st *State) factList() []string {
	var out []string
	for f := st.facts; f != nil; f = f.prev {
		out = append(out, f.line)
	}
	for i, j := 0, len(out)-1; i < j; i, j = i+1, j-1 {
		out[i], out[j] = out[j], out[i]
	}
	return out
}

func (st *State) snapshot() *Snapshot {
	s := &Snapshot{heap: map[string]string{}, ghost: map[string]string{}, now: st.now}
	for k, v := range st.heap {
		s.heap[k] = v
	}
	for k, v := range st.ghost {
		s.ghost[k] = v
	}
	return s
}

// ---- heap arrays ----

// H returns the current symbol of heap array `name` (element sort esort).
func (st *State) H(name, esort string) string {
	if s, ok := st.heap[name]; ok {
		return s
	}
	s := st.x.heapInit(name, esort)
	st.heap[name] = s
	return s
}

func (sn *Snapshot) H(x *Exec, name, esort string) string {
	if s, ok := sn.heap[name]; ok {
		return s
	}
	return x.heapInit(name, esort)
}

// setH installs a new version of heap array `name` equal to term t.
func (st *State) setH(name, esort, t string) string {
	s := st.x.freshNamed(name, "(Array Int "+esort+")")
	st.x.heapSorts[name] = esort
	st.x.defined[s] = true
	st.assume(eq(s, t))
	st.heap[name] = s
	return s
}

// havocH installs an unconstrained new version.
func (st *State) havocH(name, esort string) string {
	st.H(name, esort)
	s := st.x.freshNamed(name, "(Array Int "+esort+")")
	st.heap[name] = s
	return s
}

func (st *State) G(name string) string {
	if s, ok := st.ghost[name]; ok {
		return s
	}
	s := st.x.ghostInit(name)
	st.ghost[name] = s
	return s
}

func (sn *Snapshot) G(x *Exec, name string) string {
	if s, ok := sn.ghost[name]; ok {
		return s
	}
	return x.ghostInit(name)
}

func (st *State) setG(name, t string) {
	srt := st.x.ghostSort(name)
	s := st.x.freshNamed(name, srt)
	st.x.defined[s] = true
	st.assume(eq(s, t))
	st.ghost[name] = s
}

func (st *State) havocG(name string) string {
	srt := st.x.ghostSort(name)
	st.G(name)
	s := st.x.freshNamed(name, srt)
	st.ghost[name] = s
	return s
}

// ---- Exec-level symbol tables ----

type Exec struct {
	v         *Verifier
	lastAfterIns ssa.Instruction // call whose after-clauses were applied by applyContract
	privCache    map[*ssa.Alloc]bool
	afterResult  *Val   // result of the call whose after-clauses are being applied
	selfTerm     string // when a closure is verified as a function: the closure value itself
	pendingEsc   []Val // the closure being called directly (its captured cells are havocked like an escaping closure's)
	fn        *ssa.Function
	con       *Contract
	syms      map[string]string // symbol -> sort
	symOrder  []string
	counter   int
	heapSorts map[string]string
	locfns    map[string]locFn // location functions used
	obls      []*Obligation
	strs      map[string]int
	paths     int
	returns   int
	maxPaths  int
	errors    []string
	callOrd   map[ssa.Instruction]int
	loopOrd   map[*ssa.BasicBlock]int
	coverDone bool
	forks     int
	preludeLoc map[string]bool
	defined    map[string]bool // heap/ghost versions introduced by a defining equation (not by havoc)
	props     []string
	entryDecr    string
	entryTargets map[string][]string
	entryWhole   map[string]bool
	ptrArrays    map[string]string // heap arrays holding references: name -> "ptr" | "slice"
}

type locFn struct {
	name   string // e.g. node.left@
	parent string // struct type name of the base
	child  string // type name of the embedded object
	tag    int
}

func (x *Exec) decl(sym, sort string) {
	if _, ok := x.syms[sym]; !ok {
		x.syms[sym] = sort
		x.symOrder = append(x.symOrder, sym)
	}
}

func (x *Exec) fresh(prefix, sort string) string {
	x.counter++
	s := quote(fmt.Sprintf("%s!%d", prefix, x.counter))
	x.decl(s, sort)
	return s
}

func (x *Exec) freshNamed(name, sort string) string {
	x.counter++
	s := quote(fmt.Sprintf("%s#%d", name, x.counter))
	x.decl(s, sort)
	return s
}

func (x *Exec) heapInit(name, esort string) string {
	s := quote(name + "#0")
	if old, ok := x.heapSorts[name]; ok && old != esort {
		x.errors = append(x.errors, fmt.Sprintf("heap array %s used with sorts %s and %s", name, old, esort))
	}
	x.heapSorts[name] = esort
	x.decl(s, "(Array Int "+esort+")")
	return s
}

func (x *Exec) ghostSort(name string) string {
	for _, g := range x.v.cf.Ghosts {
		if g.Name == name {
			return g.Sort
		}
	}
	x.errors = append(x.errors, "undeclared ghost "+name)
	return SInt
}

func (x *Exec) isGhost(name string) bool {
	for _, g := range x.v.cf.Ghosts {
		if g.Name == name {
			return true
		}
	}
	return false
}

func (x *Exec) ghostInit(name string) string {
	s := quote(name + "#0")
	x.decl(s, x.ghostSort(name))
	return s
}

// locFnFor returns the location function for embedded field `field` (struct or array typed)
// of struct type `parent`.
func (x *Exec) locFnFor(parent, field string, ft types.Type) locFn {
	name := parent + "." + field + "@"
	if lf, ok := x.locfns[name]; ok {
		return lf
	}
	lf := locFn{name: name, parent: parent, child: typeName(ft), tag: x.v.locTag(name)}
	x.locfns[name] = lf
	return lf
}

// usedSymbols tokenises an SMT text and returns the declared symbols it mentions.
func (x *Exec) usedSymbols(texts ...string) map[string]bool {
	used := map[string]bool{}
	for _, t := range texts {
		i := 0
		for i < len(t) {
			c := t[i]
			if c == '|' {
				j := strings.IndexByte(t[i+1:], '|')
				if j < 0 {
					break
				}
				used[t[i:i+j+2]] = true
				i += j + 2
				continue
			}
			if c == '(' || c == ')' || c == ' ' || c == '\n' || c == '\t' {
				i++
				continue
			}
			j := i
			for j < len(t) && t[j] != '(' && t[j] != ')' && t[j] != ' ' && t[j] != '\n' && t[j] != '\t' {
				j++
			}
			used[t[i:j]] = true
			i = j
		}
	}
	return used
}

func sortedKeys(m map[string]bool) []string {
	var ks []string
	for k := range m {
		ks = append(ks, k)
	}
	sort.Strings(ks)
	return ks
}
