package main

// Bounded stand-ins (DESIGN section 9): where a function cannot be brought within the verifier's
// reach (closures whose captured state is threaded through a recursion by callbacks: the block
// visits, CopyTo), an exhaustive run of the REAL function over a stated finite input space stands
// in. These runs are labelled "bounded" everywhere, are reported next to -- never inside -- the
// obligation counts, and are never counted as proved.
//
// A harness is an in-package Go test file under /verif/bounded/<property>/, injected into the
// package with `go test -overlay` (nothing is written into /repo). Protocol on stdout:
//
//	BOUNDED-CASES test=<name> cases=<n> space=<description of the enumerated space>
//	BOUNDED-VIOLATION {"test":"<name>","input":{...},"what":"..."}
//
// With BOUNDED_REPLAY=<the violation's json> a harness runs exactly that case again.

import (
	"encoding/json"
	"fmt"
	"os"
	"os/exec"
	"path/filepath"
	"regexp"
	"strings"
	"time"
)

type BoundedViolation struct {
	Test  string          `json:"test"`
	Input json.RawMessage `json:"input"`
	What  string          `json:"what"`
}

type BoundedRun struct {
	Ran        bool
	Tests      []string
	Cases      int
	Spaces     []string
	Violations []BoundedViolation
	Output     string
	Cmd        string
	WallS      float64
	Err        string
}

var boundedCasesRe = regexp.MustCompile(`BOUNDED-CASES test=(\S+) cases=(\d+) space=(.*)`)

func boundedDir(verif, prop string) string { return filepath.Join(verif, "bounded", prop) }

func boundedOverlay(repo, dir, work string) (string, error) {
	files, _ := filepath.Glob(filepath.Join(dir, "*_test.go"))
	if len(files) == 0 {
		return "", fmt.Errorf("no harness files in %s", dir)
	}
	ov := map[string]map[string]string{"Replace": {}}
	for _, f := range files {
		ov["Replace"][filepath.Join(repo, "zz_bounded_"+filepath.Base(f))] = f
	}
	os.MkdirAll(work, 0755)
	ovPath := filepath.Join(work, fmt.Sprintf("bounded-overlay-%d.json", time.Now().UnixNano()))
	b, _ := json.Marshal(ov)
	return ovPath, os.WriteFile(ovPath, b, 0644)
}

// runBounded runs the bounded harness of a property (if it has one) against repo's working tree.
func runBounded(verif, repo, prop, tier, work, replay, only string) *BoundedRun {
	dir := boundedDir(verif, prop)
	if _, err := os.Stat(dir); err != nil {
		return &BoundedRun{}
	}
	r := &BoundedRun{Ran: true}
	ovPath, err := boundedOverlay(repo, dir, work)
	if err != nil {
		r.Err = err.Error()
		return r
	}
	timeout := "300s"
	if tier == "thorough" {
		timeout = "1500s"
	}
	pat := "^TestBounded_" + prop + "_"
	if only != "" {
		pat = "^" + only + "$"
	}
	cmd := exec.Command("go", "test", "-overlay", ovPath, "-vet=off", "-count=1", "-timeout", timeout, "-run", pat, "-v", ".")
	cmd.Dir = repo
	cmd.Env = append(os.Environ(), "GOFLAGS=-mod=mod", "GOPROXY=off", "GOSUMDB=off", "GOTOOLCHAIN=local", "BOUNDED_TIER="+tier, "BOUNDED_REPLAY="+replay)
	r.Cmd = fmt.Sprintf("cd %s && BOUNDED_TIER=%s BOUNDED_REPLAY='%s' go test -overlay <harness files of %s> -vet=off -count=1 -timeout %s -run '%s' -v .", repo, tier, replay, dir, timeout, pat)
	t0 := time.Now()
	out, runErr := cmd.CombinedOutput()
	r.WallS = time.Since(t0).Seconds()
	txt := string(out)
	for _, line := range strings.Split(txt, "\n") {
		line = strings.TrimSpace(line)
		if m := boundedCasesRe.FindStringSubmatch(line); m != nil {
			n := 0
			fmt.Sscanf(m[2], "%d", &n)
			r.Cases += n
			r.Tests = append(r.Tests, m[1])
			r.Spaces = append(r.Spaces, m[1]+": "+m[3])
		}
		if i := strings.Index(line, "BOUNDED-VIOLATION "); i >= 0 {
			var bv BoundedViolation
			if json.Unmarshal([]byte(line[i+len("BOUNDED-VIOLATION "):]), &bv) == nil {
				r.Violations = append(r.Violations, bv)
			}
		}
	}
	if len(txt) > 8000 {
		txt = txt[:3000] + "\n...\n" + txt[len(txt)-5000:]
	}
	r.Output = txt
	if runErr != nil && len(r.Violations) == 0 {
		// the harness did not complete: a build failure, a panic or a hang outside a reported case
		switch {
		case strings.Contains(txt, "[build failed]"):
			r.Err = "harness does not build against this tree"
		case strings.Contains(txt, "panic:") || strings.Contains(txt, "test timed out"):
			what := "panic"
			if strings.Contains(txt, "test timed out") {
				what = "hang (test timed out)"
			}
			r.Violations = append(r.Violations, BoundedViolation{Test: "TestBounded_" + prop, Input: json.RawMessage(`{}`), What: what + " while running the harness; see output"})
		default:
			r.Err = "harness failed without reporting a case: " + runErr.Error()
		}
	}
	return r
}

type BoundedReplayFile struct {
	Property string          `json:"property"`
	Kind     string          `json:"kind"` // "bounded"
	Test     string          `json:"test"`
	Input    json.RawMessage `json:"input"`
	What     string          `json:"what"`
	Cmd      string          `json:"replay_cmd"`
	Output   string          `json:"harness_output"`
	Note     string          `json:"note"`
}

func boundedKey(bv BoundedViolation) string {
	return bv.Test + ":" + strings.Join(strings.Fields(string(bv.Input)), "")
}

func writeBoundedReplay(dir, prop string, k int, bv BoundedViolation, run *BoundedRun) string {
	os.MkdirAll(dir, 0755)
	rf := &BoundedReplayFile{Property: prop, Kind: "bounded", Test: bv.Test, Input: bv.Input, What: bv.What, Cmd: run.Cmd, Output: run.Output,
		Note: "found by the bounded harness running the real code (a bounded stand-in, not a proof); ./check --replay <this file> runs exactly this case again"}
	path := filepath.Join(dir, fmt.Sprintf("%s-bounded-%s-%d.json", prop, bv.Test, k))
	writeJSON(path, rf)
	return path
}

// replayBounded re-runs one recorded bounded case on the current tree.
func replayBounded(path string, b []byte) int {
	var rf BoundedReplayFile
	if err := json.Unmarshal(b, &rf); err != nil {
		fmt.Fprintln(os.Stderr, err)
		return 2
	}
	work := filepath.Join("/verif/.work", fmt.Sprintf("replay-%d", os.Getpid()))
	defer os.RemoveAll(work)
	j, _ := json.Marshal(BoundedViolation{Test: rf.Test, Input: rf.Input, What: rf.What})
	run := runBounded("/verif", "/repo", rf.Property, "quick", work, string(j), rf.Test)
	fmt.Println(run.Cmd)
	fmt.Println(run.Output)
	if len(run.Violations) > 0 {
		fmt.Printf("VIOLATION property=%s replay=%s\n", rf.Property, path)
		return 1
	}
	if run.Err != "" {
		fmt.Println("TOOLING-ERROR", run.Err)
		return 2
	}
	fmt.Println("replay passes on the current tree")
	return 0
}
