package main

// Thorough tier extras: cross-solver agreement and the must-fail corpus.

import (
	"context"
	"crypto/sha256"
	"encoding/hex"
	"fmt"
	"os"
	"os/exec"
	"path/filepath"
	"sort"
	"strings"
	"sync"
	"time"
)

type crossStats struct {
	Checked    int
	Confirmed  map[string]int
	NoAnswer   map[string]int
	Disagree   []string
	DisagreeOn map[string]string
}

// crossCheck re-runs one instance of every proved named obligation on the two other solvers.
func crossCheck(agg []*AggObl, workdir string, workers int) *crossStats {
	cs := &crossStats{Confirmed: map[string]int{}, NoAnswer: map[string]int{}, DisagreeOn: map[string]string{}}
	var mu sync.Mutex
	jobs := make(chan *AggObl)
	var wg sync.WaitGroup
	for w := 0; w < workers; w++ {
		wg.Add(1)
		go func() {
			defer wg.Done()
			for a := range jobs {
				o := a.sample
				if o == nil || o.Expect != "unsat" || o.Goal == "true" {
					continue
				}
				script := o.script()
				h := sha256.Sum256([]byte(script))
				for _, sp := range solvers[1:] {
					r := runSolver(sp, filepath.Join(workdir, "x"+hex.EncodeToString(h[:10])+sp.name), script, 5)
					mu.Lock()
					switch r.status {
					case "unsat":
						cs.Confirmed[sp.name]++
					case "sat":
						msg := fmt.Sprintf("%s: z3 5.1 says unsat, %s says sat", a.Name, sp.name)
						cs.Disagree = append(cs.Disagree, msg)
						cs.DisagreeOn[a.Name] = msg
					default:
						cs.NoAnswer[sp.name]++
					}
					mu.Unlock()
				}
				mu.Lock()
				cs.Checked++
				mu.Unlock()
			}
		}()
	}
	for _, a := range agg {
		if a.Status == "proved" {
			jobs <- a
		}
	}
	close(jobs)
	wg.Wait()
	sort.Strings(cs.Disagree)
	return cs
}

type selfTestResult struct {
	What   string   `json:"what"`
	Caught []string `json:"caught"`
	Missed []string `json:"missed"`
	Skipped []string `json:"skipped"`
	Lines  []string `json:"-"`
}

// selfTest runs the property's quick check against scratch worktrees of /repo's HEAD carrying the seeded
// property-breaking changes kept under /verif/seeded/<property>*/ (must-fail corpus): each must be reported.
// A miss does not change the verdict on /repo -- it is a statement about the check, shown in the evidence.
func selfTest(verif, repo, prop, work string) *selfTestResult {
	res := &selfTestResult{What: "quick check of this property run against scratch worktrees of /repo HEAD with each seeded property-breaking change applied (the worktrees are created under the system temporary directory, outside /repo and /verif, and removed after each run); a caught change exits 1 with a VIOLATION line"}
	dirs, _ := filepath.Glob(filepath.Join(verif, "seeded", prop+"*"))
	sort.Strings(dirs)
	self, _ := os.Executable()
	for k, d := range dirs {
		id := filepath.Base(d)
		patch := filepath.Join(d, "patch.diff")
		if _, err := os.Stat(patch); err != nil {
			continue
		}
		wt := filepath.Join(os.TempDir(), fmt.Sprintf("govc-selftest-%d-%d", os.Getpid(), k))
		if out, err := exec.Command("git", "-C", repo, "worktree", "add", "--detach", "-q", wt, "HEAD").CombinedOutput(); err != nil {
			res.Skipped = append(res.Skipped, id+": cannot create worktree: "+strings.TrimSpace(string(out)))
			continue
		}
		cleanup := func() {
			exec.Command("git", "-C", repo, "worktree", "remove", "--force", wt).Run()
			os.RemoveAll(wt)
		}
		ap := exec.Command("git", "apply", patch)
		ap.Dir = wt
		if err := ap.Run(); err != nil {
			// the seeded changes were made against the pinned tree; after a fix: commit try a 3-way merge
			ap3 := exec.Command("git", "apply", "--3way", patch)
			ap3.Dir = wt
			err3 := ap3.Run()
			un := exec.Command("git", "diff", "--name-only", "--diff-filter=U")
			un.Dir = wt
			uo, _ := un.Output()
			if err3 != nil || len(strings.TrimSpace(string(uo))) > 0 {
				res.Skipped = append(res.Skipped, id+": patch no longer applies to HEAD")
				cleanup()
				continue
			}
		}
		ctx, cancel := context.WithTimeout(context.Background(), 12*time.Minute)
		c := exec.CommandContext(ctx, self, "check", prop, "--tier", "quick", "--repo", wt, "--contracts", contractPath(repo), "--verif", verif, "--no-evidence")
		out, _ := c.CombinedOutput()
		code := -1
		if c.ProcessState != nil {
			code = c.ProcessState.ExitCode()
		}
		timedOut := ctx.Err() != nil
		cancel()
		cleanup()
		if timedOut {
			res.Skipped = append(res.Skipped, id+": the check did not finish within 12 minutes on the changed tree")
			res.Lines = append(res.Lines, fmt.Sprintf("SELFTEST property=%s seeded-change=%s not decided (time limit)", prop, id))
			continue
		}
		if code == 1 && strings.Contains(string(out), "VIOLATION property="+prop) {
			res.Caught = append(res.Caught, id)
			res.Lines = append(res.Lines, fmt.Sprintf("SELFTEST property=%s seeded-change=%s caught", prop, id))
		} else {
			res.Missed = append(res.Missed, id)
			res.Lines = append(res.Lines, fmt.Sprintf("SELFTEST property=%s seeded-change=%s MISSED (exit %d)", prop, id, code))
		}
	}
	return res
}

// The lemmas about the spec functions that the SMT solvers take as axioms (they need induction) are proved
// in Lean 4 + Mathlib over hand-transcribed definitions: /verif/lean/LemmaL.lean (L1, L2, L3) and LemmaU.lean
// (treap uniqueness). The thorough tier of the properties that use them re-checks the files.
func leanFilesFor(prop string) []string {
	switch prop {
	case "C13":
		return []string{"LemmaL.lean", "LemmaU.lean"}
	case "C01", "C16":
		return []string{"LemmaL.lean"}
	}
	return nil
}

type leanResult struct {
	What    string   `json:"what"`
	Checked []string `json:"checked"`
	Failed  []string `json:"failed"`
	Lines   []string `json:"-"`
}

func checkLean(verif string, files []string) *leanResult {
	r := &leanResult{What: "lean 4.33 + Mathlib re-checks the induction lemmas that prelude.smt2 states as axioms (L1: no member of a heap-ordered search tree outranks the root; L2: cnt of a search tree = number of its keys; L3: a strictly increasing log segment holding exactly the keys of a search tree has cnt entries; U: a treap is determined by its key/priority pairs); the Lean definitions are transcribed from the prelude by hand"}
	for _, f := range files {
		c := exec.Command("lean", f)
		c.Dir = filepath.Join(verif, "lean")
		out, err := c.CombinedOutput()
		txt := string(out)
		if err != nil || strings.Contains(txt, "error") || strings.Contains(txt, "sorry") {
			r.Failed = append(r.Failed, f)
			r.Lines = append(r.Lines, "UNDECIDED lemma file "+f+" is not accepted by lean: "+strings.TrimSpace(firstLine(txt)))
		} else {
			r.Checked = append(r.Checked, f)
			r.Lines = append(r.Lines, "LEMMAS "+f+" accepted by lean (no sorry)")
		}
	}
	return r
}

func firstLine(s string) string {
	if i := strings.Index(s, "\n"); i >= 0 {
		return s[:i]
	}
	return s
}
