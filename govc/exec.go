package main

// Forward symbolic execution of go/ssa function bodies, cut at loop heads
// (invariants) and at calls (callee contracts). Emits one obligation per
// proof goal encountered.

import (
	"fmt"
	"math/big"
	"go/ast"
	"go/constant"
	"go/token"
	"go/types"
	"sort"
	"strings"

	"golang.org/x/tools/go/ssa"
)

type Obligation struct {
	Name    string
	Func    string
	Kind    string // safe pre post frame loop rec ghost global cover
	Tags    []string
	Src     string
	Pos     string
	Path    string
	Decls   string
	Facts   []string
	Goal    string
	Expect  string // "unsat" normally; "sat" for cover/pre.sat checks
	Status  string // proved failed unknown error
	Solver  string
	Ms      int64
	Output  string
	Script  string
	Tainted string
	pre     *factNode // path facts at the point of emission
	goalNode *factNode // the fact node by which later obligations on the path assume this goal
	Blocked string    // set when this obligation only held with an unproved earlier goal as hypothesis
	x       *Exec
}

type pathEnd struct{}

func (x *Exec) errorf(f string, a ...interface{}) {
	x.errors = append(x.errors, fmt.Sprintf(f, a...))
}

// strID interns a string constant.
func (x *Exec) strID(st *State, s string) int {
	if s == "" {
		return 0
	}
	id, ok := x.strs[s]
	if !ok {
		id = 1000 + len(x.strs)
		x.strs[s] = id
	}
	if st != nil {
		st.assume(eq(app("strlen", num(int64(id))), num(int64(len(s)))))
	}
	return id
}

func (x *Exec) shortFn(fn *ssa.Function) string { return shortName(fn) }

func shortName(fn *ssa.Function) string {
	s := fn.String()
	s = strings.ReplaceAll(s, "github.com/cbehopkins/gkvlite.", "")
	return s
}

func posString(fset *token.FileSet, p token.Pos) string {
	if !p.IsValid() {
		return ""
	}
	ps := fset.Position(p)
	f := ps.Filename
	if i := strings.LastIndex(f, "/"); i >= 0 {
		f = f[i+1:]
	}
	return fmt.Sprintf("%s:%d", f, ps.Line)
}

// emit records an obligation with the current path facts.
func (x *Exec) emit(st *State, kind, name, goal string, tags []string, src string, pos token.Pos) {
	if goal == "true" {
		// trivially true goals are still counted (discharged syntactically)
		goal = "true"
	}
	o := &Obligation{
		Name: x.shortFn(x.fn) + "#" + name, Func: x.shortFn(x.fn), Kind: kind, Tags: tags, Src: src,
		Pos: posString(x.v.fset, pos), Path: strings.Join(st.path, " "), pre: st.facts, Goal: goal, Expect: "unsat",
		Tainted: st.tainted,
	}
	x.obls = append(x.obls, o)
	// after asserting, assume (standard assert-then-assume)
	st.assume(goal)
	o.goalNode = st.facts
}

func (x *Exec) safetyTags() []string {
	t := []string{"C07"}
	for _, p := range x.props {
		if p != "C07" {
			t = append(t, p)
		}
	}
	return t
}

// isLocalVar: the identifier denotes a local variable or parameter (not a struct field, package
// variable, constant or function).
func isLocalVar(o types.Object) bool {
	v, ok := o.(*types.Var)
	if !ok || v.IsField() {
		return false
	}
	return v.Parent() != nil && v.Pkg() != nil && v.Parent() != v.Pkg().Scope()
}

// notePtr records that a heap array holds references (for the entry-heap closure axiom).
func (x *Exec) notePtr(name string, t types.Type) {
	switch t.Underlying().(type) {
	case *types.Pointer, *types.Map, *types.Chan:
		x.ptrArrays[name] = "ptr"
	case *types.Slice:
		x.ptrArrays[name] = "slice"
	}
}

// neverNil reports SSA values that are addresses by construction.
func neverNil(v ssa.Value) bool {
	switch v.(type) {
	case *ssa.Alloc, *ssa.Global, *ssa.FieldAddr, *ssa.IndexAddr, *ssa.MakeClosure, *ssa.Function, *ssa.MakeMap, *ssa.MakeChan:
		return true
	}
	return false
}

func (x *Exec) safe(st *State, what, detail, goal string, pos token.Pos) {
	if x.con != nil && x.con.NoSafety {
		st.assume(goal)
		return
	}
	if goal == "true" {
		return
	}
	x.emit(st, "safe", "safe."+what+"@"+detail, goal, x.safetyTags(), "no "+what+" panic: "+detail, pos)
}

// ---- values ----

func (x *Exec) val(st *State, v ssa.Value) Val {
	fr := st.top()
	switch c := v.(type) {
	case *ssa.Const:
		return x.constant(st, c)
	case *ssa.Global:
		t := c.Type().(*types.Pointer).Elem()
		if isStruct(t) || isArray(t) {
			return term(x.globalRef(c.Name()), SInt, c.Type())
		}
		x.notePtr("G."+c.Name(), t)
		return Val{K: VFieldPtr, Field: "G." + c.Name(), Base: "0", ESort: sortOf(t), Ty: c.Type()}
	case *ssa.Function:
		// a function constant is also a (positive, interned) reference so that it can be stored and compared
		return Val{K: VFunc, Fn: c, Ty: c.Type(), T: num(int64(x.v.funcID(shortName(c)))), S: SInt}
	case *ssa.Builtin:
		return Val{K: VNone}
	case *ssa.FreeVar:
		for i, fv := range fr.fn.FreeVars {
			if fv == c {
				if i < len(fr.bind) {
					return fr.bind[i]
				}
			}
		}
	}
	if r, ok := fr.vals[v]; ok {
		return r
	}
	x.errorf("no value for %s (%T) in %s", v.Name(), v, fr.fn.Name())
	return x.symbolic(st, v.Type(), "undef")
}

func (x *Exec) constant(st *State, c *ssa.Const) Val {
	t := c.Type()
	if c.Value == nil {
		// zero value / nil
		return x.zero(st, t)
	}
	switch c.Value.Kind() {
	case constant.Bool:
		if constant.BoolVal(c.Value) {
			return Val{K: VTerm, T: "true", S: SBool, Ty: t}
		}
		return Val{K: VTerm, T: "false", S: SBool, Ty: t}
	case constant.Int:
		return constVal(x, st, c.Value, t)
	case constant.String:
		return constVal(x, st, c.Value, t)
	}
	x.errorf("unsupported constant %s", c.String())
	return term("0", SInt, t)
}

func (x *Exec) zero(st *State, t types.Type) Val {
	switch u := t.Underlying().(type) {
	case *types.Struct:
		v := Val{K: VStruct, Ty: t}
		for i := 0; i < u.NumFields(); i++ {
			v.Elems = append(v.Elems, x.zero(st, u.Field(i).Type()))
		}
		return v
	case *types.Array:
		es := sortOf(u.Elem())
		return term("((as const (Array Int "+es+")) "+x.zeroTerm(es)+")", "(Array Int "+es+")", t)
	}
	s := sortOf(t)
	return term(x.zeroTerm(s), s, t)
}

func (x *Exec) zeroTerm(s string) string {
	switch s {
	case SBool:
		return "false"
	case SSlice:
		return "nilslice"
	case SInt:
		return "0"
	}
	if strings.HasPrefix(s, "(Array Int ") {
		es := strings.TrimSuffix(strings.TrimPrefix(s, "(Array Int "), ")")
		return "((as const " + s + ") " + x.zeroTerm(es) + ")"
	}
	return "0"
}

// symbolic creates an unconstrained value of Go type t (with range / allocation facts).
func (x *Exec) symbolic(st *State, t types.Type, hint string) Val {
	switch u := t.Underlying().(type) {
	case *types.Struct:
		v := Val{K: VStruct, Ty: t}
		for i := 0; i < u.NumFields(); i++ {
			v.Elems = append(v.Elems, x.symbolic(st, u.Field(i).Type(), hint+"."+u.Field(i).Name()))
		}
		return v
	case *types.Tuple:
		v := Val{K: VTuple, Ty: t}
		for i := 0; i < u.Len(); i++ {
			v.Elems = append(v.Elems, x.symbolic(st, u.At(i).Type(), fmt.Sprintf("%s.%d", hint, i)))
		}
		return v
	}
	s := sortOf(t)
	sym := x.fresh(hint, s)
	v := term(sym, s, t)
	x.typeFacts(st, v)
	return v
}

// typeFacts assumes the facts implied by the Go type of a value that came from
// outside (parameter, heap load, callee result): integer range, slice
// well-formedness, allocation before now.
func (x *Exec) typeFacts(st *State, v Val) {
	if v.K != VTerm || v.Ty == nil {
		return
	}
	switch u := v.Ty.Underlying().(type) {
	case *types.Basic:
		if u.Info()&types.IsInteger != 0 {
			st.assume(rangeFact(v.Ty, v.T))
		} else if u.Info()&types.IsString != 0 {
			st.assume(app(">=", app("strlen", v.T), "0"))
		}
	case *types.Slice:
		st.assume(app("wfslice", v.T))
		st.assume(or(eq(app("sarr", v.T), "0"), app("<", app("birth", app("sarr", v.T)), st.now)))
	case *types.Pointer, *types.Map, *types.Chan:
		st.assume(and(app(">=", v.T, "0"), or(eq(v.T, "0"), app("<", app("birth", v.T), st.now))))
	case *types.Interface:
		st.assume(app(">=", v.T, "0"))
	case *types.Signature:
		// a function value exists before it is handed on (closures: made before now)
		st.assume(and(app(">=", v.T, "0"), or(eq(v.T, "0"), app("<", app("birth", v.T), st.now))))
	}
}

// ---- allocation ----

func (x *Exec) allocRef(st *State, hint string) string {
	r := x.fresh(hint, SInt)
	st.assume(app(">", r, "0"))
	st.assume(eq(app("birth", r), st.now))
	n := x.fresh("now", SInt)
	st.assume(eq(n, app("+", st.now, "1")))
	st.now = n
	return r
}

// initStruct stores value v (VStruct) into the struct at reference ref.
func (x *Exec) storeStruct(st *State, ref string, t types.Type, v Val) {
	u := t.Underlying().(*types.Struct)
	tn := typeName(t)
	for i := 0; i < u.NumFields(); i++ {
		f := u.Field(i)
		fv := v.Elems[i]
		if isStruct(f.Type()) {
			lf := x.locFnFor(tn, f.Name(), f.Type())
			x.storeStruct(st, app(quote(lf.name), ref), f.Type(), fv)
		} else if isArray(f.Type()) {
			lf := x.locFnFor(tn, f.Name(), f.Type())
			a := f.Type().Underlying().(*types.Array)
			name := arrMemName(f.Type())
			es := "(Array Int " + sortOf(a.Elem()) + ")"
			st.setH(name, es, store(st.H(name, es), app(quote(lf.name), ref), fv.T))
		} else {
			name := tn + "." + f.Name()
			es := sortOf(f.Type())
			st.setH(name, es, store(st.H(name, es), ref, fv.T))
		}
	}
}

func (x *Exec) loadStruct(st *State, ref string, t types.Type) Val {
	u := t.Underlying().(*types.Struct)
	tn := typeName(t)
	v := Val{K: VStruct, Ty: t}
	for i := 0; i < u.NumFields(); i++ {
		f := u.Field(i)
		if isStruct(f.Type()) {
			lf := x.locFnFor(tn, f.Name(), f.Type())
			v.Elems = append(v.Elems, x.loadStruct(st, app(quote(lf.name), ref), f.Type()))
		} else if isArray(f.Type()) {
			lf := x.locFnFor(tn, f.Name(), f.Type())
			a := f.Type().Underlying().(*types.Array)
			name := arrMemName(f.Type())
			es := "(Array Int " + sortOf(a.Elem()) + ")"
			v.Elems = append(v.Elems, term(sel(st.H(name, es), app(quote(lf.name), ref)), es, f.Type()))
		} else {
			fv := x.fieldRead(st.H, ref, tn, f)
			v.Elems = append(v.Elems, fv)
		}
	}
	return v
}

// load reads through a pointer value.
func (x *Exec) load(st *State, p Val, elemT types.Type) Val {
	switch p.K {
	case VFieldPtr:
		v := term(x.readFieldPtr(st, p), p.ESort, elemT)
		return x.named(st, v, "ld")
	case VTerm:
		if isStruct(elemT) {
			return x.loadStruct(st, p.T, elemT)
		}
		if a, ok := elemT.Underlying().(*types.Array); ok {
			name := arrMemName(elemT)
			es := "(Array Int " + sortOf(a.Elem()) + ")"
			return term(sel(st.H(name, es), p.T), es, elemT)
		}
		// pointer to a non-struct cell (closure variable, &local)
		es := sortOf(elemT)
		name := "cell." + es
		return x.named(st, term(sel(st.H(name, es), p.T), es, elemT), "ld")
	}
	x.errorf("load through unsupported pointer %s", p.String())
	return x.symbolic(st, elemT, "ld")
}

// named binds a (possibly large) term to a fresh constant and adds type facts.
func (x *Exec) named(st *State, v Val, hint string) Val {
	if v.K != VTerm {
		return v
	}
	// the same term (same heap version, same location) gets the same name on a path, so that
	// re-reading an unchanged location yields a syntactically equal value
	if st.names == nil {
		st.names = map[string]string{}
	}
	if nm, ok := st.names[v.T]; ok {
		v.T = nm
		return v
	}
	s := x.fresh(hint, v.S)
	st.assume(eq(s, v.T))
	st.names[v.T] = s
	v.T = s
	x.typeFacts(st, v)
	return v
}

func (x *Exec) storeTo(st *State, p Val, v Val, elemT types.Type) {
	switch p.K {
	case VFieldPtr:
		if v.K != VTerm && !((v.K == VFunc || v.K == VClosure) && v.T != "") {
			x.errorf("store of composite into field pointer")
			return
		}
		if p.Idx != "" {
			as := "(Array Int " + p.ESort + ")"
			h := st.H(p.Field, as)
			st.setH(p.Field, as, store(h, p.Base, store(sel(h, p.Base), p.Idx, v.T)))
			return
		}
		st.setH(p.Field, p.ESort, store(st.H(p.Field, p.ESort), p.Base, v.T))
	case VTerm:
		if isStruct(elemT) {
			if v.K != VStruct {
				x.errorf("store of non-struct value to struct pointer")
				return
			}
			x.storeStruct(st, p.T, elemT, v)
			return
		}
		if a, ok := elemT.Underlying().(*types.Array); ok {
			name := arrMemName(elemT)
			es := "(Array Int " + sortOf(a.Elem()) + ")"
			st.setH(name, es, store(st.H(name, es), p.T, v.T))
			return
		}
		es := sortOf(elemT)
		name := "cell." + es
		st.setH(name, es, store(st.H(name, es), p.T, v.T))
	default:
		x.errorf("store through unsupported pointer %s", p.String())
	}
}

// readFieldPtr reads the location a field/element pointer designates.
func (x *Exec) readFieldPtr(st *State, p Val) string {
	if p.Idx != "" {
		return sel(sel(st.H(p.Field, "(Array Int "+p.ESort+")"), p.Base), p.Idx)
	}
	return sel(st.H(p.Field, p.ESort), p.Base)
}

// ---- path driver ----

func (x *Exec) run(st *State) {
	defer func() {
		if r := recover(); r != nil {
			if _, ok := r.(pathEnd); ok {
				return
			}
			panic(r)
		}
	}()
	for {
		if x.paths > x.maxPaths {
			x.errorf("path limit exceeded")
			return
		}
		fr := st.top()
		if fr.idx >= len(fr.block.Instrs) {
			x.errorf("fell off block %d of %s", fr.block.Index, fr.fn.Name())
			return
		}
		ins := fr.block.Instrs[fr.idx]
		fr.idx++
		if !x.step(st, ins) {
			return
		}
	}
}

func (x *Exec) endPath() { panic(pathEnd{}) }

// gotoBlock transfers control within the top frame, handling phis and loop cuts.
func (x *Exec) gotoBlock(st *State, to *ssa.BasicBlock) bool {
	fr := st.top()
	from := fr.block
	// loop handling
	if ord, isHead := x.loopHeads(fr.fn)[to]; isHead {
		// back edge?
		for _, al := range fr.loops {
			if al.head == to {
				x.loopBack(st, al, from, to)
				x.paths++
				return false
			}
		}
		if !x.loopEnter(st, ord, from, to) {
			return false
		}
		return true
	}
	x.enterBlock(st, from, to, nil)
	return true
}

func (x *Exec) enterBlock(st *State, from, to *ssa.BasicBlock, havocPhis map[*ssa.Phi]Val) {
	fr := st.top()
	// evaluate phis simultaneously
	var phis []*ssa.Phi
	var vals []Val
	predIdx := -1
	for i, p := range to.Preds {
		if p == from {
			predIdx = i
			break
		}
	}
	for _, ins := range to.Instrs {
		phi, ok := ins.(*ssa.Phi)
		if !ok {
			break
		}
		phis = append(phis, phi)
		if havocPhis != nil {
			vals = append(vals, havocPhis[phi])
		} else {
			vals = append(vals, x.val(st, phi.Edges[predIdx]))
		}
	}
	for i, phi := range phis {
		fr.vals[phi] = vals[i]
	}
	fr.prev = from
	fr.block = to
	fr.idx = len(phis)
}

// step executes one instruction; returns false when the path ended.
func (x *Exec) step(st *State, ins ssa.Instruction) bool {
	fr := st.top()
	switch i := ins.(type) {
	case *ssa.DebugRef:
		if id, ok := i.Expr.(*ast.Ident); ok && id.Name != "_" && isLocalVar(i.Object()) {
			if fr.names == nil {
				fr.names = map[string]namedVal{}
			}
			fr.names[id.Name] = namedVal{i.X, i.IsAddr}
		}
		return true
	case *ssa.Jump:
		return x.gotoBlock(st, fr.block.Succs[0])
	case *ssa.If:
		c := x.val(st, i.Cond)
		if c.T == "true" {
			return x.gotoBlock(st, fr.block.Succs[0])
		}
		if c.T == "false" {
			return x.gotoBlock(st, fr.block.Succs[1])
		}
		// fork (infeasible arms are pruned by a quick solver query)
		tOK, fOK := true, true
		if st.hasFact(c.T) {
			fOK = false
		} else if st.hasFact(not(c.T)) {
			tOK = false
		} else if x.forks > 12 {
			ch := make(chan bool, 1)
			go func() { ch <- x.feasible(st, c.T) }()
			fOK = x.feasible(st, not(c.T))
			tOK = <-ch
		}
		x.forks++
		if !tOK && !fOK {
			x.paths++
			return false // the path itself is infeasible
		}
		if !tOK {
			st.assume(not(c.T))
			return x.gotoBlock(st, fr.block.Succs[1])
		}
		if !fOK {
			st.assume(c.T)
			return x.gotoBlock(st, fr.block.Succs[0])
		}
		other := st.clone()
		other.assume(not(c.T))
		other.path = append(other.path, fmt.Sprintf("b%d:F", fr.block.Index))
		if x.gotoBlock(other, other.top().block.Succs[1]) {
			x.run(other)
		}
		st.assume(c.T)
		st.path = append(st.path, fmt.Sprintf("b%d:T", fr.block.Index))
		return x.gotoBlock(st, fr.block.Succs[0])
	case *ssa.Return:
		return x.doReturn(st, i)
	case *ssa.RunDefers:
		return x.runDefers(st)
	case *ssa.Panic:
		msg := "panic"
		if mi, ok := i.X.(*ssa.MakeInterface); ok {
			if c, ok := mi.X.(*ssa.Const); ok && c.Value != nil && c.Value.Kind() == constant.String {
				msg = constant.StringVal(c.Value)
			}
		}
		if len(msg) > 40 {
			msg = msg[:40]
		}
		x.safe(st, "panic", msg, "false", i.Pos())
		x.paths++
		return false
	case *ssa.Store:
		addr := x.val(st, i.Addr)
		v := x.val(st, i.Val)
		x.storeTo(st, addr, v, i.Addr.Type().Underlying().(*types.Pointer).Elem())
		return true
	case *ssa.Defer:
		x.doDefer(st, i)
		return true
	case *ssa.Go:
		st.tainted = "go statement (spawned call not followed)"
		x.v.noteUnsupported(x.shortFn(fr.fn), "go statement")
		return true
	case *ssa.MapUpdate:
		x.mapUpdate(st, i)
		return true
	case *ssa.Send:
		st.tainted = "channel send"
		x.v.noteUnsupported(x.shortFn(fr.fn), "channel send")
		return true
	case ssa.Value:
		return x.stepValue(st, i.(ssa.Instruction), i)
	}
	x.errorf("unsupported instruction %T in %s", ins, fr.fn.Name())
	st.tainted = fmt.Sprintf("unsupported instruction %T", ins)
	return true
}

func (x *Exec) stepValue(st *State, ins ssa.Instruction, v ssa.Value) bool {
	fr := st.top()
	set := func(r Val) { fr.vals[v] = r }
	switch i := ins.(type) {
	case *ssa.Alloc:
		t := i.Type().(*types.Pointer).Elem()
		ref := x.allocRef(st, "new."+typeName(t))
		if isStruct(t) {
			st.assume(eq(app("tagof", ref), "0"))
			x.storeStruct(st, ref, t, x.zero(st, t))
			set(term(ref, SInt, i.Type()))
		} else if isArray(t) {
			z := x.zero(st, t)
			name := arrMemName(t)
			st.setH(name, z.S, store(st.H(name, z.S), ref, z.T))
			set(term(ref, SInt, i.Type()))
		} else {
			es := sortOf(t)
			name := "cell." + es
			st.setH(name, es, store(st.H(name, es), ref, x.zeroTerm(es)))
			st.cells = append(st.cells, cellRec{ptr: ref, es: es, alloc: i})
			set(term(ref, SInt, i.Type()))
		}
	case *ssa.FieldAddr:
		base := x.val(st, i.X)
		pt := i.X.Type().Underlying().(*types.Pointer).Elem()
		stt := pt.Underlying().(*types.Struct)
		f := stt.Field(i.Field)
		if !neverNil(i.X) {
			x.safe(st, "nil", x.operandText(i.X)+"."+f.Name(), not(eq(base.T, "0")), i.Pos())
		}
		tn := typeName(pt)
		if isStruct(f.Type()) || isArray(f.Type()) {
			lf := x.locFnFor(tn, f.Name(), f.Type())
			set(term(app(quote(lf.name), base.T), SInt, i.Type()))
		} else {
			x.notePtr(tn+"."+f.Name(), f.Type())
			set(Val{K: VFieldPtr, Field: tn + "." + f.Name(), Base: base.T, ESort: sortOf(f.Type()), Ty: i.Type()})
		}
	case *ssa.Field:
		base := x.val(st, i.X)
		if base.K != VStruct {
			x.errorf("Field on non-struct value")
			set(x.symbolic(st, i.Type(), "fld"))
		} else {
			set(base.Elems[i.Field])
		}
	case *ssa.IndexAddr:
		x.indexAddr(st, i)
	case *ssa.Index:
		base := x.val(st, i.X)
		idx := x.val(st, i.Index)
		if a, ok := i.X.Type().Underlying().(*types.Array); ok {
			x.safe(st, "idx", x.operandText(i.X)+"["+x.operandText(i.Index)+"]", and(app("<=", "0", idx.T), app("<", idx.T, num(a.Len()))), i.Pos())
			set(x.named(st, term(sel(base.T, idx.T), sortOf(a.Elem()), a.Elem()), "idx"))
		} else {
			// string indexing
			set(x.symbolic(st, i.Type(), "stridx"))
		}
	case *ssa.UnOp:
		x.unop(st, i)
	case *ssa.BinOp:
		x.binop(st, i)
	case *ssa.Phi:
		x.errorf("phi in the middle of a block")
	case *ssa.Extract:
		t := x.val(st, i.Tuple)
		if t.K != VTuple || i.Index >= len(t.Elems) {
			x.errorf("extract from non-tuple in %s", fr.fn.Name())
			set(x.symbolic(st, i.Type(), "ext"))
		} else {
			set(t.Elems[i.Index])
		}
	case *ssa.Convert:
		x.convert(st, i)
	case *ssa.ChangeType:
		a := x.val(st, i.X)
		a.Ty = i.Type()
		set(a)
	case *ssa.ChangeInterface:
		a := x.val(st, i.X)
		a.Ty = i.Type()
		set(a)
	case *ssa.MakeInterface:
		a := x.val(st, i.X)
		if a.K == VTerm && a.S == SInt {
			// pointers, ints, funcs: the interface value is the same Int; nil pointer inside
			// a non-nil interface is not distinguished (documented abstraction)
			r := a
			r.Ty = i.Type()
			r.Dyn = i.X.Type()
			if _, isPtr := i.X.Type().Underlying().(*types.Pointer); !isPtr {
				// boxed non-pointer: fresh non-nil reference
				s := x.fresh("iface", SInt)
				st.assume(app(">", s, "0"))
				r = term(s, SInt, i.Type())
			}
			set(r)
		} else {
			s := x.fresh("iface", SInt)
			st.assume(app(">", s, "0"))
			set(term(s, SInt, i.Type()))
		}
	case *ssa.Slice:
		x.sliceOp(st, i)
	case *ssa.MakeSlice:
		x.makeSlice(st, i)
	case *ssa.MakeMap:
		ref := x.allocRef(st, "map")
		mt := i.Type().Underlying().(*types.Map)
		es := sortOf(mt.Elem())
		name := mapName(mt.Elem())
		st.setH(name, "(Array Int "+es+")", store(st.H(name, "(Array Int "+es+")"), ref, x.zeroTerm("(Array Int "+es+")")))
		st.setH("map.dom", "(Array Int Bool)", store(st.H("map.dom", "(Array Int Bool)"), ref, "((as const (Array Int Bool)) false)"))
		set(term(ref, SInt, i.Type()))
	case *ssa.Lookup:
		x.lookup(st, i)
	case *ssa.Range:
		x.rangeStart(st, i)
	case *ssa.Next:
		x.rangeNext(st, i)
	case *ssa.MakeClosure:
		var binds []Val
		for _, b := range i.Bindings {
			binds = append(binds, x.val(st, b))
		}
		ref := x.allocRef(st, "closure")
		st.assume(eq(app("codeOf", ref), num(int64(x.v.funcID(shortName(i.Fn.(*ssa.Function)))))))
		x.trackAxiom(st, x.v.cf.Funcs[calleeName(i.Fn.(*ssa.Function))], ref, i.Fn.(*ssa.Function), binds)
		if ccon := x.v.cf.Funcs[calleeName(i.Fn.(*ssa.Function))]; ccon != nil && !ccon.Inline && len(st.frames) == 1 {
			cfn := i.Fn.(*ssa.Function)
			vars := map[string]Val{}
			for k, fv := range cfn.FreeVars {
				if k < len(binds) {
					vars[fv.Name()] = binds[k]
				}
			}
			cenv := &Env{x: x, st: st, old: nil, vars: vars, entry: st.entry}
			for _, rq := range ccon.Requires {
				for _, cj := range conjuncts(rq.E) {
					if !captureOnly(cj, cfn) {
						continue
					}
					g, err := cenv.evalBool(cj)
					if err != nil {
						x.errorf("%s: requires %q of %s: %v", x.shortFn(x.fn), rq.Src, shortName(cfn), err)
						continue
					}
					x.emit(st, "pre", "closure-pre@"+lastSeg(shortName(cfn))+"."+exprString(cj), g, x.tagsOf(rq.Tags),
						"what the closure assumes of its captured variables holds where it is made: "+exprString(cj), i.Pos())
				}
			}
			for k, cl := range ccon.Captures {
				g, err := cenv.evalBool(cl.E)
				if err != nil {
					x.errorf("%s: captures %q of %s: %v", x.shortFn(x.fn), cl.Src, shortName(cfn), err)
					continue
				}
				x.emit(st, "pre", "closure-inv@"+lastSeg(shortName(cfn))+"."+clauseName(cl, k), g, x.tagsOf(cl.Tags),
					"invariant of the closure holds where it is made: "+cl.Src, i.Pos())
			}
		}
		set(Val{K: VClosure, Fn: i.Fn.(*ssa.Function), Bind: binds, Ty: i.Type(), T: ref, S: SInt})
	case *ssa.Call:
		return x.doCall(st, i)
	case *ssa.TypeAssert:
		st.tainted = "type assertion"
		x.v.noteUnsupported(x.shortFn(fr.fn), "type assertion / type switch")
		set(x.symbolic(st, i.Type(), "ta"))
	case *ssa.MakeChan:
		// creating a channel is the allocation of an opaque object; operations on channels (send,
		// receive, select, go) are outside the subset and taint the path where they occur
		set(term(x.allocRef(st, "chan"), SInt, i.Type()))
	case *ssa.Select:
		st.tainted = "select"
		set(x.symbolic(st, i.Type(), "select"))
	default:
		x.errorf("unsupported value instruction %T in %s", ins, fr.fn.Name())
		st.tainted = fmt.Sprintf("unsupported instruction %T", ins)
		set(x.symbolic(st, v.Type(), "unsup"))
	}
	return true
}

// operandText gives a stable, source-like description of an SSA operand for obligation names.
func (x *Exec) operandText(v ssa.Value) string {
	switch c := v.(type) {
	case *ssa.Parameter:
		return c.Name()
	case *ssa.Const:
		return c.Value.String()
	case *ssa.FreeVar:
		return c.Name()
	case *ssa.Global:
		return c.Name()
	case *ssa.FieldAddr:
		pt := c.X.Type().Underlying().(*types.Pointer).Elem().Underlying().(*types.Struct)
		return x.operandText(c.X) + "." + pt.Field(c.Field).Name()
	case *ssa.UnOp:
		if c.Op == token.MUL {
			return x.operandText(c.X)
		}
	case *ssa.Extract:
		if call, ok := c.Tuple.(*ssa.Call); ok {
			return x.callText(call) + fmt.Sprintf("#%d", c.Index)
		}
	case *ssa.Call:
		return x.callText(c)
	case *ssa.Phi:
		if c.Comment != "" {
			return c.Comment
		}
	case *ssa.Alloc:
		if c.Comment != "" {
			return c.Comment
		}
	case *ssa.BinOp:
		return x.operandText(c.X) + c.Op.String() + x.operandText(c.Y)
	case *ssa.Convert:
		return x.operandText(c.X)
	case *ssa.ChangeType:
		return x.operandText(c.X)
	case *ssa.Slice:
		return x.operandText(c.X) + "[:]"
	case *ssa.Lookup:
		return x.operandText(c.X) + "[" + x.operandText(c.Index) + "]"
	case *ssa.IndexAddr:
		return x.operandText(c.X) + "[" + x.operandText(c.Index) + "]"
	case *ssa.MakeSlice:
		return "make"
	}
	return "_"
}

func (x *Exec) callText(c *ssa.Call) string {
	if c.Call.IsInvoke() {
		return c.Call.Method.Name() + "()"
	}
	if f := c.Call.StaticCallee(); f != nil {
		return f.Name() + "()"
	}
	return x.operandText(c.Call.Value) + "()"
}

func (x *Exec) unop(st *State, i *ssa.UnOp) {
	fr := st.top()
	a := x.val(st, i.X)
	switch i.Op {
	case token.MUL:
		if a.K == VTerm && !neverNil(i.X) {
			x.safe(st, "nil", "*"+x.operandText(i.X), not(eq(a.T, "0")), i.Pos())
		}
		fr.vals[i] = x.load(st, a, i.Type())
	case token.NOT:
		fr.vals[i] = Val{K: VTerm, T: not(a.T), S: SBool, Ty: i.Type()}
	case token.SUB:
		r := term(app("-", a.T), SInt, i.Type())
		fr.vals[i] = x.arith(st, i, r, i.Pos())
	case token.XOR:
		// bitwise complement
		lo, _, _ := intRange(i.Type())
		if lo != nil && lo.Sign() == 0 {
			_, hi, _ := intRange(i.Type())
			fr.vals[i] = term(app("-", bignum(hi), a.T), SInt, i.Type())
		} else {
			fr.vals[i] = term(app("-", app("-", a.T), "1"), SInt, i.Type())
		}
	case token.ARROW:
		st.tainted = "channel receive"
		x.v.noteUnsupported(x.shortFn(fr.fn), "channel receive")
		fr.vals[i] = x.symbolic(st, i.Type(), "recv")
	default:
		x.errorf("unsupported unary op %s", i.Op)
		fr.vals[i] = x.symbolic(st, i.Type(), "unop")
	}
}

// arith applies the integer model to an arithmetic result: mathematical value,
// with an overflow obligation when the function is overflow-checked, otherwise
// wrap-around semantics are *not* modelled (assumption A4, listed in evidence).
func (x *Exec) arith(st *State, ins ssa.Instruction, r Val, pos token.Pos) Val {
	if _, _, ok := intRange(r.Ty); !ok {
		return r
	}
	r = x.namedNoFacts(st, r, "ar")
	if x.con != nil && x.con.Overflow && len(st.frames) == 1 {
		x.emit(st, "safe", "safe.overflow@"+x.operandText(ins.(ssa.Value)), rangeFact(r.Ty, r.T), x.safetyTags(), "no integer overflow", pos)
	} else {
		// unsigned subtraction wrapping etc. is not modelled: treat as mathematical,
		// but keep range knowledge out (no assumption that result is in range).
		x.v.noteMathInt(x.shortFn(st.top().fn))
	}
	return r
}

func (x *Exec) namedNoFacts(st *State, v Val, hint string) Val {
	s := x.fresh(hint, v.S)
	st.assume(eq(s, v.T))
	v.T = s
	return v
}

func (x *Exec) binop(st *State, i *ssa.BinOp) {
	fr := st.top()
	a := x.val(st, i.X)
	b := x.val(st, i.Y)
	set := func(r Val) { fr.vals[i] = r }
	bres := func(t string) { set(Val{K: VTerm, T: t, S: SBool, Ty: i.Type()}) }
	switch i.Op {
	case token.EQL, token.NEQ:
		var t string
		switch {
		case a.K == VTerm && a.S == SSlice:
			// only comparison with nil is legal for slices
			t = eq(app("sarr", a.T), "0")
		case a.K == VTerm && b.K == VTerm:
			t = eq(a.T, b.T)
		case (a.K == VClosure || a.K == VFunc) && b.K == VTerm:
			t = "false"
		case a.K == VTerm && (b.K == VClosure || b.K == VFunc):
			t = "false"
		case a.K == VStruct && b.K == VStruct:
			t = x.structEq(a, b)
		default:
			x.errorf("unsupported comparison operands in %s", fr.fn.Name())
			t = x.fresh("cmp", SBool)
		}
		if i.Op == token.NEQ {
			t = not(t)
		}
		bres(t)
	case token.LSS, token.LEQ, token.GTR, token.GEQ:
		op := map[token.Token]string{token.LSS: "<", token.LEQ: "<=", token.GTR: ">", token.GEQ: ">="}[i.Op]
		if isStringT(i.X.Type()) {
			bres(x.fresh("strcmp", SBool))
			return
		}
		bres(app(op, a.T, b.T))
	case token.ADD:
		if isStringT(i.Type()) {
			s := x.fresh("strcat", SInt)
			st.assume(eq(app("strlen", s), app("+", app("strlen", a.T), app("strlen", b.T))))
			set(term(s, SInt, i.Type()))
			return
		}
		set(x.arith(st, i, term(app("+", a.T, b.T), SInt, i.Type()), i.Pos()))
	case token.SUB:
		set(x.arith(st, i, term(app("-", a.T, b.T), SInt, i.Type()), i.Pos()))
	case token.MUL:
		set(x.arith(st, i, term(app("*", a.T, b.T), SInt, i.Type()), i.Pos()))
	case token.QUO:
		x.safe(st, "div", x.operandText(i.Y), not(eq(b.T, "0")), i.Pos())
		set(x.namedNoFacts(st, term(app("godiv", a.T, b.T), SInt, i.Type()), "div"))
	case token.REM:
		x.safe(st, "div", x.operandText(i.Y), not(eq(b.T, "0")), i.Pos())
		set(x.namedNoFacts(st, term(app("gomod", a.T, b.T), SInt, i.Type()), "rem"))
	case token.AND:
		if a.S == SBool {
			bres(and(a.T, b.T))
			return
		}
		r := x.namedNoFacts(st, term(app("bitand", a.T, b.T), SInt, i.Type()), "band")
		st.assume(rangeFact(i.Type(), r.T))
		set(r)
	case token.OR, token.XOR, token.SHL, token.SHR, token.AND_NOT:
		if a.S == SBool {
			if i.Op == token.OR {
				bres(or(a.T, b.T))
				return
			}
		}
		fn := map[token.Token]string{token.OR: "bitor", token.XOR: "bitxor", token.SHL: "shl", token.SHR: "shr", token.AND_NOT: "bitandnot"}[i.Op]
		r := x.namedNoFacts(st, term(app(fn, a.T, b.T), SInt, i.Type()), "bit")
		st.assume(rangeFact(i.Type(), r.T))
		set(r)
	default:
		x.errorf("unsupported binary op %s", i.Op)
		set(x.symbolic(st, i.Type(), "binop"))
	}
}

// wrapConv models an integer conversion without div/mod: same-width sign changes are an ite,
// narrowing conversions introduce the (unique) quotient k with r = v - k*2^n, r in range.
func (x *Exec) wrapConv(st *State, dst, src types.Type, v string) Val {
	dlo, dhi, _ := intRange(dst)
	slo, shi, ok := intRange(src)
	if ok {
		dw := new(big.Int).Sub(dhi, dlo)
		sw := new(big.Int).Sub(shi, slo)
		if dw.Cmp(sw) == 0 {
			r := x.namedNoFacts(st, term(wrapFrom(dst, src, v), SInt, dst), "conv")
			st.assume(rangeFact(dst, r.T))
			return r
		}
	}
	m := new(big.Int).Add(new(big.Int).Sub(dhi, dlo), big.NewInt(1))
	k := x.fresh("wrapk", SInt)
	r := x.fresh("conv", SInt)
	st.assume(eq(r, app("-", v, app("*", k, m.String()))))
	st.assume(rangeFact(dst, r))
	return term(r, SInt, dst)
}

func isStringT(t types.Type) bool {
	b, ok := t.Underlying().(*types.Basic)
	return ok && b.Info()&types.IsString != 0
}

func (x *Exec) structEq(a, b Val) string {
	var cs []string
	for i := range a.Elems {
		if a.Elems[i].K == VStruct {
			cs = append(cs, x.structEq(a.Elems[i], b.Elems[i]))
		} else {
			cs = append(cs, eq(a.Elems[i].T, b.Elems[i].T))
		}
	}
	return and(cs...)
}

func (x *Exec) convert(st *State, i *ssa.Convert) {
	fr := st.top()
	a := x.val(st, i.X)
	src, dst := i.X.Type(), i.Type()
	_, _, srcInt := intRange(src)
	_, _, dstInt := intRange(dst)
	switch {
	case srcInt && dstInt:
		if rangeIncludes(dst, src) {
			fr.vals[i] = term(a.T, SInt, dst)
		} else {
			fr.vals[i] = x.wrapConv(st, dst, src, a.T)
		}
	case isStringT(src) && sortOf(dst) == SSlice:
		// []byte(s): fresh backing array of the string's length
		arr := x.allocRef(st, "strbytes")
		n := app("strlen", a.T)
		sl := x.fresh("sl", SSlice)
		st.assume(eq(sl, app("mkslice", arr, "0", n, n)))
		// content of constant strings is known
		if c, ok := i.X.(*ssa.Const); ok && c.Value != nil && c.Value.Kind() == constant.String {
			s := constant.StringVal(c.Value)
			content := "((as const (Array Int Int)) 0)"
			for k := 0; k < len(s); k++ {
				content = store(content, num(int64(k)), num(int64(s[k])))
			}
			st.setH("mem.byte", "(Array Int Int)", store(st.H("mem.byte", "(Array Int Int)"), arr, content))
		} else {
			c := x.fresh("strcontent", "(Array Int Int)")
			st.assume("(forall ((i Int)) (! (and (<= 0 (select " + c + " i)) (< (select " + c + " i) 256)) :pattern ((select " + c + " i))))")
			st.setH("mem.byte", "(Array Int Int)", store(st.H("mem.byte", "(Array Int Int)"), arr, c))
		}
		fr.vals[i] = term(sl, SSlice, dst)
	case sortOf(src) == SSlice && isStringT(dst):
		s := x.fresh("str", SInt)
		st.assume(eq(app("strlen", s), app("slen", a.T)))
		st.assume(app(">=", s, "0"))
		fr.vals[i] = term(s, SInt, dst)
	default:
		if a.K == VTerm {
			a.Ty = dst
			fr.vals[i] = a
		} else {
			x.errorf("unsupported conversion %s -> %s", src, dst)
			fr.vals[i] = x.symbolic(st, dst, "conv")
		}
	}
}

// ---- slices ----

// arrMemName: arrays (locals, embedded array fields) live in the same element memory as slice
// backing arrays, keyed by their reference.
func arrMemName(t types.Type) string {
	a := t.Underlying().(*types.Array)
	return memName(sortOf(a.Elem()), a.Elem())
}

func sliceElem(t types.Type) (types.Type, string) {
	switch u := t.Underlying().(type) {
	case *types.Slice:
		return u.Elem(), sortOf(u.Elem())
	case *types.Pointer:
		if a, ok := u.Elem().Underlying().(*types.Array); ok {
			return a.Elem(), sortOf(a.Elem())
		}
	case *types.Basic:
		return types.Typ[types.Uint8], SInt
	}
	return types.Typ[types.Uint8], SInt
}

func (x *Exec) indexAddr(st *State, i *ssa.IndexAddr) {
	fr := st.top()
	base := x.val(st, i.X)
	idx := x.val(st, i.Index)
	switch u := i.X.Type().Underlying().(type) {
	case *types.Slice:
		es := sortOf(u.Elem())
		x.safe(st, "idx", x.operandText(i.X)+"["+x.operandText(i.Index)+"]", and(app("<=", "0", idx.T), app("<", idx.T, app("slen", base.T))), i.Pos())
		fr.vals[i] = Val{K: VFieldPtr, Field: memName(es, u.Elem()), Base: app("sarr", base.T), Idx: app("+", app("soff", base.T), idx.T), ESort: es, Ty: i.Type()}
	case *types.Pointer:
		a := u.Elem().Underlying().(*types.Array)
		es := sortOf(a.Elem())
		x.safe(st, "nil", x.operandText(i.X), not(eq(base.T, "0")), i.Pos())
		x.safe(st, "idx", x.operandText(i.X)+"["+x.operandText(i.Index)+"]", and(app("<=", "0", idx.T), app("<", idx.T, num(a.Len()))), i.Pos())
		fr.vals[i] = Val{K: VFieldPtr, Field: arrMemName(u.Elem()), Base: base.T, Idx: idx.T, ESort: es, Ty: i.Type()}
	default:
		x.errorf("unsupported IndexAddr base %s", i.X.Type())
		fr.vals[i] = Val{K: VFieldPtr, Field: "mem.Int", Base: "0", Idx: "0", ESort: SInt, Ty: i.Type()}
	}
}

func (x *Exec) sliceOp(st *State, i *ssa.Slice) {
	fr := st.top()
	base := x.val(st, i.X)
	var lo, hi, mx string
	if i.Low != nil {
		lo = x.val(st, i.Low).T
	} else {
		lo = "0"
	}
	switch u := i.X.Type().Underlying().(type) {
	case *types.Slice:
		if i.High != nil {
			hi = x.val(st, i.High).T
		} else {
			hi = app("slen", base.T)
		}
		capT := app("scap", base.T)
		bound := capT
		goal := and(app("<=", "0", lo), app("<=", lo, hi), app("<=", hi, bound))
		newcap := app("-", capT, lo)
		if i.Max != nil {
			mx = x.val(st, i.Max).T
			goal = and(app("<=", "0", lo), app("<=", lo, hi), app("<=", hi, mx), app("<=", mx, capT))
			newcap = app("-", mx, lo)
		}
		x.safe(st, "slice", x.operandText(i.X)+"["+x.sliceText(i)+"]", goal, i.Pos())
		r := x.fresh("sl", SSlice)
		st.assume(eq(r, app("mkslice", app("sarr", base.T), app("+", app("soff", base.T), lo), app("-", hi, lo), newcap)))
		fr.vals[i] = term(r, SSlice, i.Type())
	case *types.Basic:
		// string slicing
		if i.High != nil {
			hi = x.val(st, i.High).T
		} else {
			hi = app("strlen", base.T)
		}
		x.safe(st, "slice", x.operandText(i.X)+"["+x.sliceText(i)+"]", and(app("<=", "0", lo), app("<=", lo, hi), app("<=", hi, app("strlen", base.T))), i.Pos())
		s := x.fresh("substr", SInt)
		st.assume(eq(app("strlen", s), app("-", hi, lo)))
		fr.vals[i] = term(s, SInt, i.Type())
	case *types.Pointer:
		a := u.Elem().Underlying().(*types.Array)
		n := num(a.Len())
		if i.High != nil {
			hi = x.val(st, i.High).T
		} else {
			hi = n
		}
		x.safe(st, "nil", x.operandText(i.X), not(eq(base.T, "0")), i.Pos())
		x.safe(st, "slice", x.operandText(i.X)+"["+x.sliceText(i)+"]", and(app("<=", "0", lo), app("<=", lo, hi), app("<=", hi, n)), i.Pos())
		r := x.fresh("sl", SSlice)
		st.assume(eq(r, app("mkslice", base.T, lo, app("-", hi, lo), app("-", n, lo))))
		fr.vals[i] = term(r, SSlice, i.Type())
	default:
		x.errorf("unsupported slice base")
		fr.vals[i] = x.symbolic(st, i.Type(), "sl")
	}
}

func (x *Exec) sliceText(i *ssa.Slice) string {
	lo, hi := "", ""
	if i.Low != nil {
		lo = x.operandText(i.Low)
	}
	if i.High != nil {
		hi = x.operandText(i.High)
	}
	return lo + ":" + hi
}

func (x *Exec) makeSlice(st *State, i *ssa.MakeSlice) {
	fr := st.top()
	ln := x.val(st, i.Len)
	cp := x.val(st, i.Cap)
	x.safe(st, "makeslice", x.operandText(i.Len), and(app("<=", "0", ln.T), app("<=", ln.T, cp.T)), i.Pos())
	elem, es := sliceElem(i.Type())
	arr := x.allocRef(st, "arr")
	m := memName(es, elem)
	ms := "(Array Int " + es + ")"
	st.setH(m, ms, store(st.H(m, ms), arr, x.zeroTerm(ms)))
	r := x.fresh("sl", SSlice)
	st.assume(eq(r, app("mkslice", arr, "0", ln.T, cp.T)))
	fr.vals[i] = term(r, SSlice, i.Type())
}

// ---- maps ----

func (x *Exec) mapArrays(st *State, mt *types.Map) (content, csort string) {
	es := sortOf(mt.Elem())
	return mapName(mt.Elem()), "(Array Int " + es + ")"
}

func (x *Exec) lookup(st *State, i *ssa.Lookup) {
	fr := st.top()
	m := x.val(st, i.X)
	k := x.val(st, i.Index)
	mt, ok := i.X.Type().Underlying().(*types.Map)
	if !ok {
		// string index
		fr.vals[i] = x.symbolic(st, i.Type(), "stridx")
		return
	}
	cn, cs := x.mapArrays(st, mt)
	es := sortOf(mt.Elem())
	inDom := sel(sel(st.H("map.dom", "(Array Int Bool)"), m.T), k.T)
	raw := sel(sel(st.H(cn, cs), m.T), k.T)
	v := x.named(st, term(ite(inDom, raw, x.zeroTerm(es)), es, mt.Elem()), "mapv")
	if i.CommaOk {
		fr.vals[i] = Val{K: VTuple, Elems: []Val{v, {K: VTerm, T: inDom, S: SBool, Ty: types.Typ[types.Bool]}}}
	} else {
		fr.vals[i] = v
	}
}

func (x *Exec) mapUpdate(st *State, i *ssa.MapUpdate) {
	m := x.val(st, i.Map)
	k := x.val(st, i.Key)
	v := x.val(st, i.Value)
	mt := i.Map.Type().Underlying().(*types.Map)
	x.safe(st, "nilmap", x.operandText(i.Map), not(eq(m.T, "0")), i.Pos())
	cn, cs := x.mapArrays(st, mt)
	h := st.H(cn, cs)
	st.setH(cn, cs, store(h, m.T, store(sel(h, m.T), k.T, v.T)))
	d := st.H("map.dom", "(Array Int Bool)")
	st.setH("map.dom", "(Array Int Bool)", store(d, m.T, store(sel(d, m.T), k.T, "true")))
}

// Range/Next over maps: an iterator is a fresh ghost set of visited keys.
func (x *Exec) rangeStart(st *State, i *ssa.Range) {
	fr := st.top()
	m := x.val(st, i.X)
	if _, ok := i.X.Type().Underlying().(*types.Map); !ok {
		x.errorf("range over non-map (string) unsupported")
	}
	it := x.allocRef(st, "iter")
	st.setH("iter.map", SInt, store(st.H("iter.map", SInt), it, m.T))
	st.setH("iter.seen", "(Array Int Bool)", store(st.H("iter.seen", "(Array Int Bool)"), it, "((as const (Array Int Bool)) false)"))
	fr.vals[i] = term(it, SInt, i.Type())
}

func (x *Exec) rangeNext(st *State, i *ssa.Next) {
	fr := st.top()
	it := x.val(st, i.Iter)
	rng := i.Iter.(*ssa.Range)
	mt := rng.X.Type().Underlying().(*types.Map)
	m := sel(st.H("iter.map", SInt), it.T)
	seen := sel(st.H("iter.seen", "(Array Int Bool)"), it.T)
	dom := sel(st.H("map.dom", "(Array Int Bool)"), m)
	ok := x.fresh("more", SBool)
	k := x.symbolic(st, mt.Key(), "key")
	cn, cs := x.mapArrays(st, mt)
	v := x.named(st, term(sel(sel(st.H(cn, cs), m), k.T), sortOf(mt.Elem()), mt.Elem()), "val")
	// ok ==> key in dom and not yet seen; !ok ==> every key in dom has been seen
	st.assume(implies(ok, and(sel(dom, k.T), not(sel(seen, k.T)))))
	kq := x.freshBound("k")
	st.assume(implies(not(ok), "(forall (("+kq+" Int)) (! (=> (select "+dom+" "+kq+") (select "+seen+" "+kq+")) :pattern ((select "+dom+" "+kq+"))))"))
	st.setH("iter.seen", "(Array Int Bool)", store(st.H("iter.seen", "(Array Int Bool)"), it.T, ite(ok, store(seen, k.T, "true"), seen)))
	fr.vals[i] = Val{K: VTuple, Elems: []Val{{K: VTerm, T: ok, S: SBool, Ty: types.Typ[types.Bool]}, k, v}}
}

// ---- loops ----

func (x *Exec) loopHeads(fn *ssa.Function) map[*ssa.BasicBlock]int {
	x.v.mu.Lock()
	defer x.v.mu.Unlock()
	if m, ok := x.v.loopCache[fn]; ok {
		return m
	}
	heads := map[*ssa.BasicBlock]bool{}
	for _, b := range fn.Blocks {
		for _, s := range b.Succs {
			if s.Dominates(b) {
				heads[s] = true
			}
		}
	}
	var hs []*ssa.BasicBlock
	for h := range heads {
		hs = append(hs, h)
	}
	sort.Slice(hs, func(i, j int) bool { return hs[i].Index < hs[j].Index })
	m := map[*ssa.BasicBlock]int{}
	for i, h := range hs {
		m[h] = i
	}
	x.v.loopCache[fn] = m
	return m
}

func (x *Exec) loopSpecFor(fn *ssa.Function, ord int) *LoopSpec {
	c := x.v.cf.Funcs[shortName(fn)]
	if c == nil {
		return nil
	}
	return c.Loops[ord]
}

func (x *Exec) envFor(st *State) *Env {
	fr := st.top()
	vars := map[string]Val{}
	for _, p := range fr.fn.Params {
		vars[p.Name()] = x.val(st, p)
	}
	for i, fv := range fr.fn.FreeVars {
		if i < len(fr.bind) {
			vars[fv.Name()] = fr.bind[i]
		}
	}
	if len(st.frames) == 1 && x.selfTerm != "" {
		vars["self"] = term(x.selfTerm, SInt, fr.fn.Signature)
	}
	return &Env{x: x, st: st, old: st.entry, vars: vars, entry: st.entry}
}

// trackAxiom: the closure whose value is `self` (free variables bound as in vars) has a `tracks` clause:
// its visitor invariant vinv(self, z) is by definition that expression, in every state.
func (x *Exec) trackAxiom(st *State, con *Contract, self string, fn *ssa.Function, binds []Val) {
	if con == nil || con.Tracks == nil {
		return
	}
	st2 := st.clone()
	cq, nq, sq, zq := x.freshBound("C"), x.freshBound("n"), x.freshBound("s"), x.freshBound("z")
	st2.heap["cell.Int"] = cq
	x.heapSorts["cell.Int"] = SInt
	st2.ghost["vis.n"] = nq
	st2.ghost["vis.stop"] = sq
	vars := map[string]Val{"self": term(self, SInt, fn.Signature), "z": term(zq, SInt, types.Typ[types.Int])}
	for k, fv := range fn.FreeVars {
		if k < len(binds) {
			vars[fv.Name()] = binds[k]
		}
	}
	env := &Env{x: x, st: st2, old: nil, vars: vars, entry: st.entry, derefOv: map[string]string{}}
	// a captured variable that nobody writes once the closure exists has one value for the closure's whole
	// life: the definition uses that value (read from the current state) instead of a read of the quantified state
	for k := range fn.FreeVars {
		if k < len(binds) && binds[k].K == VTerm && immutableCapture(fn, k) {
			pt, ok := fn.FreeVars[k].Type().Underlying().(*types.Pointer)
			if !ok || isStruct(pt.Elem()) || isArray(pt.Elem()) {
				continue
			}
			es := sortOf(pt.Elem())
			env.derefOv[binds[k].T] = x.named(st, term(sel(st.H("cell."+es, es), binds[k].T), es, pt.Elem()), "cap").T
		}
	}
	lhsE, perr := parseExpr("vinv(self, z)")
	if perr != nil {
		x.errorf("tracks: %v", perr)
		return
	}
	lhs, err := env.evalBool(lhsE)
	if err != nil {
		x.errorf("%s: tracks: %v", shortName(fn), err)
		return
	}
	rhs, err := env.evalBool(con.Tracks.E)
	if err != nil {
		x.errorf("%s: tracks %q: %v", shortName(fn), con.Tracks.Src, err)
		return
	}
	pats := " :pattern (" + lhs + ")"
	for _, sub := range vinvSubterms(rhs) {
		if sub != lhs {
			pats += " :pattern (" + sub + ")"
		}
	}
	st.assume("(forall ((" + cq + " (Array Int Int)) (" + nq + " Int) (" + sq + " Bool) (" + zq + " Int)) (! (= " + lhs + " " + rhs + ")" + pats + "))")
}

// vinvSubterms: the (vinv ...) applications occurring in an SMT term (balanced-parenthesis scan).
func vinvSubterms(t string) []string {
	var out []string
	for i := 0; i+6 <= len(t); i++ {
		if !strings.HasPrefix(t[i:], "(vinv ") {
			continue
		}
		depth := 0
		for j := i; j < len(t); j++ {
			if t[j] == '(' {
				depth++
			} else if t[j] == ')' {
				depth--
				if depth == 0 {
					out = append(out, t[i:j+1])
					break
				}
			}
		}
	}
	return out
}

// immutableCapture: free variable k of closure fn is bound (where fn's closure is made) to a private local
// cell of the enclosing function that is written only before the closure is made and never by the closure.
func immutableCapture(fn *ssa.Function, k int) bool {
	parent := fn.Parent()
	if parent == nil {
		return false
	}
	if storedFreeVars(fn, map[*ssa.Function]bool{})[k] {
		return false
	}
	var mc *ssa.MakeClosure
	n := 0
	for _, b := range parent.Blocks {
		for _, ins := range b.Instrs {
			if m, ok := ins.(*ssa.MakeClosure); ok && m.Fn == ssa.Value(fn) {
				mc = m
				n++
			}
		}
	}
	if mc == nil || n != 1 || k >= len(mc.Bindings) {
		return false
	}
	a, ok := mc.Bindings[k].(*ssa.Alloc)
	if !ok || !ptrUsesPrivate(a, map[ssa.Value]bool{}) {
		return false
	}
	for _, r := range *a.Referrers() {
		switch i := r.(type) {
		case *ssa.Store:
			if i.Block() == mc.Block() {
				before := false
				for _, ins := range i.Block().Instrs {
					if ins == ssa.Instruction(i) {
						before = true
						break
					}
					if ins == ssa.Instruction(mc) {
						break
					}
				}
				if !before {
					return false
				}
			} else if !i.Block().Dominates(mc.Block()) {
				return false
			}
		case *ssa.MakeClosure:
			// another closure capturing the same cell must not write it either
			other := i.Fn.(*ssa.Function)
			for j, b := range i.Bindings {
				if b == ssa.Value(a) && storedFreeVars(other, map[*ssa.Function]bool{})[j] {
					return false
				}
			}
		}
	}
	return true
}

// loopVars adds the named SSA values visible at the loop head (phis with source names).
func (x *Exec) loopEnv(st *State, head *ssa.BasicBlock) *Env {
	e := x.envFor(st)
	fr := st.top()
	// entry values of parameters stay reachable through old(); the loop head's phis carry the
	// current values of variables (including reassigned parameters) and shadow them
	e.oldVars = map[string]Val{}
	for _, p := range fr.fn.Params {
		e.oldVars[p.Name()] = e.vars[p.Name()]
	}
	for _, ins := range head.Instrs {
		phi, ok := ins.(*ssa.Phi)
		if !ok {
			break
		}
		if phi.Comment != "" {
			if pv, ok := fr.vals[phi]; ok {
				e.vars[phi.Comment] = pv
			}
		}
	}
	// the slice driving a `for i, v := range <expr>` loop is visible to invariants as rangeslice
	if head.Comment == "rangeindex.loop" && len(head.Instrs) > 0 {
		if phi, ok := head.Instrs[0].(*ssa.Phi); ok {
			for _, b := range fr.fn.Blocks {
				for _, ins := range b.Instrs {
					ia, ok := ins.(*ssa.IndexAddr)
					if !ok {
						continue
					}
					if bo, ok := ia.Index.(*ssa.BinOp); ok && bo.X == ssa.Value(phi) {
						if sv, ok := fr.vals[ia.X]; ok {
							e.vars["rangeslice"] = sv
						}
					}
				}
			}
		}
	}
	// the map iterator driving a range loop is visible to invariants as $iter (see seen(k))
	for _, ins := range head.Instrs {
		if n, ok := ins.(*ssa.Next); ok {
			if iv, ok := fr.vals[n.Iter]; ok {
				e.vars["$iter"] = iv
			}
		}
	}
	x.addNamedLocals(e, st)
	// cells captured/declared: free variables that are pointers to cells are exposed by content
	for i, fv := range fr.fn.FreeVars {
		if i < len(fr.bind) {
			if pt, ok := fv.Type().Underlying().(*types.Pointer); ok && !isStruct(pt.Elem()) && !isArray(pt.Elem()) && fr.bind[i].K == VTerm {
				e.vars[fv.Name()] = x.loadNoName(st, fr.bind[i], pt.Elem())
			}
		}
	}
	return e
}

// addNamedLocals exposes the source-named local values currently defined in the top frame.
func (x *Exec) addNamedLocals(e *Env, st *State) {
	fr := st.top()
	// any named value (phi comments, allocs) currently defined
	for v, val := range fr.vals {
		name := ""
		switch c := v.(type) {
		case *ssa.Phi:
			name = c.Comment
		case *ssa.Alloc:
			name = c.Comment
		}
		if name != "" {
			if _, exists := e.vars[name]; !exists {
				if a, ok := v.(*ssa.Alloc); ok {
					// the variable's current content
					t := a.Type().(*types.Pointer).Elem()
					if !isStruct(t) && !isArray(t) {
						e.vars[name] = x.loadNoName(st, val, t)
						continue
					}
				}
				e.vars[name] = val
			}
		}
	}
	for name, nv := range fr.names {
		if _, exists := e.vars[name]; exists {
			continue
		}
		val, ok := fr.vals[nv.v]
		if !ok {
			if _, isConst := nv.v.(*ssa.Const); isConst {
				val = x.val(st, nv.v)
			} else if _, isGlobal := nv.v.(*ssa.Global); isGlobal {
				continue
			} else {
				continue
			}
		}
		if nv.isAddr {
			pt, ok := nv.v.Type().Underlying().(*types.Pointer)
			if !ok {
				continue
			}
			if isStruct(pt.Elem()) || isArray(pt.Elem()) {
				e.vars[name] = val
			} else if val.K == VTerm || val.K == VFieldPtr {
				e.vars[name] = x.loadNoName(st, val, pt.Elem())
			}
			continue
		}
		e.vars[name] = val
	}
}

func (x *Exec) loadNoName(st *State, p Val, elemT types.Type) Val {
	es := sortOf(elemT)
	if p.K == VFieldPtr {
		return term(x.readFieldPtr(st, p), p.ESort, elemT)
	}
	return term(sel(st.H("cell."+es, es), p.T), es, elemT)
}

func (x *Exec) loopEnter(st *State, ord int, from, to *ssa.BasicBlock) bool {
	fr := st.top()
	spec := x.loopSpecFor(fr.fn, ord)
	if spec == nil {
		x.errorf("loop %d of %s has no invariant/variant in the contract file", ord, shortName(fr.fn))
		spec = &LoopSpec{}
		st.tainted = "loop without contract"
	}
	// 1. establish invariants with the actual incoming phi values
	x.enterBlock(st, from, to, nil)
	env := x.loopEnv(st, to)
	for k, inv := range spec.Invs {
		g, err := env.evalBool(inv.E)
		if err != nil {
			x.errorf("%s loop %d invariant %q: %v", shortName(fr.fn), ord, inv.Src, err)
			continue
		}
		x.emit(st, "loop", fmt.Sprintf("loop%d.init.%s", ord, clauseName(inv, k)), g, x.tagsOf(inv.Tags), inv.Src, token.NoPos)
	}
	// 2. havoc: phis and modified heap
	hv := map[*ssa.Phi]Val{}
	for _, ins := range to.Instrs {
		phi, ok := ins.(*ssa.Phi)
		if !ok {
			break
		}
		hv[phi] = x.symbolic(st, phi.Type(), "loop."+phi.Comment)
	}
	al := &activeLoop{head: to, ord: ord, spec: spec, targets: map[string][]string{}, whole: map[string]bool{}}
	preEnv := x.loopEnv(st, to)
	ts, err := preEnv.evalTargets(spec.Modifies)
	if err != nil {
		x.errorf("%s loop %d modifies: %v", shortName(fr.fn), ord, err)
	}
	al.snap = st.snapshot() // state on loop entry: the frame of all iterations is stated relative to it
	x.applyHavoc(st, ts, st.now, al)
	// allocation clock may advance
	n := x.fresh("now", SInt)
	st.assume(app(">=", n, st.now))
	st.now = n
	x.closureFacts(st, ts)
	for phi, v := range hv {
		fr.vals[phi] = v
	}
	// 3. assume invariants in the havocked state
	env2 := x.loopEnv(st, to)
	for _, inv := range spec.Invs {
		g, err := env2.evalBool(inv.E)
		if err == nil {
			st.assume(g)
		} else {
			x.errorf("%s loop %d invariant %q at the loop head: %v", shortName(fr.fn), ord, inv.Src, err)
		}
	}
	if spec.Decreases != nil {
		d, err := env2.evalTerm(spec.Decreases)
		if err == nil {
			s := x.fresh("variant", SInt)
			st.assume(eq(s, d.T))
			al.decr = s
		} else {
			x.errorf("%s loop %d decreases: %v", shortName(fr.fn), ord, err)
		}
	}
	fr.loops = append(fr.loops, al)
	return true
}

func (x *Exec) loopBack(st *State, al *activeLoop, from, to *ssa.BasicBlock) {
	fr := st.top()
	// evaluate phis with back-edge values
	x.enterBlock(st, from, to, nil)
	env := x.loopEnv(st, to)
	for k, inv := range al.spec.Invs {
		g, err := env.evalBool(inv.E)
		if err != nil {
			x.errorf("%s loop %d invariant %q at the back edge: %v", shortName(fr.fn), al.ord, inv.Src, err)
			continue
		}
		x.emit(st, "loop", fmt.Sprintf("loop%d.keep.%s", al.ord, clauseName(inv, k)), g, x.tagsOf(inv.Tags), inv.Src, token.NoPos)
	}
	if al.spec.Decreases != nil && al.decr != "" {
		d, err := env.evalTerm(al.spec.Decreases)
		if err == nil {
			x.emit(st, "loop", fmt.Sprintf("loop%d.dec", al.ord), and(app("<", d.T, al.decr), app(">=", al.decr, "0")),
				x.termTags(), "variant decreases and is bounded below: "+al.spec.DecSrc, token.NoPos)
		}
	} else if isMapRangeLoop(al.head) {
		// `for k := range m`: terminates by Go semantics (finite map, every key visited once); recorded as trusted
		x.v.noteIntrinsic(x.shortFn(x.fn), "termination of range loops over maps and slices (Go semantics)")
	} else {
		x.emit(st, "loop", fmt.Sprintf("loop%d.dec", al.ord), "false", x.termTags(), "loop has no variant", token.NoPos)
	}
	// frame of the loop body
	x.frameCheck(st, al.snap, al.targets, al.whole, fmt.Sprintf("loop%d.frame", al.ord), nil)
	_ = fr
}

func isMapRangeLoop(head *ssa.BasicBlock) bool {
	if head.Comment == "rangeindex.loop" {
		return true // `for i := range slice`: the length is evaluated once and the index only grows
	}
	for _, ins := range head.Instrs {
		if n, ok := ins.(*ssa.Next); ok && !n.IsString {
			return true
		}
	}
	return false
}

func (x *Exec) termTags() []string {
	t := []string{"C07"}
	for _, p := range x.props {
		if p == "C08" {
			t = append(t, "C08")
		}
	}
	return t
}

func clauseName(c *Clause, k int) string {
	if c.Label != "" {
		return c.Label
	}
	return fmt.Sprintf("%d", k)
}

func (x *Exec) tagsOf(tags []string) []string {
	if len(tags) > 0 {
		return tags
	}
	if len(x.props) > 0 {
		return x.props
	}
	return []string{"C07"}
}

// applyHavoc havocs the target locations; records them in al (if non-nil) for the frame check.
func (x *Exec) applyHavoc(st *State, ts []target, nowBefore string, al *activeLoop) {
	// group by array
	type grp struct {
		esort string
		whole bool
		fresh bool
		refs  []string
		olders []string
		ghost bool
	}
	groups := map[string]*grp{}
	var order []string
	for _, t := range ts {
		g := groups[t.array]
		if g == nil {
			g = &grp{esort: t.esort, ghost: t.ghost}
			groups[t.array] = g
			order = append(order, t.array)
		}
		if t.whole {
			g.whole = true
		} else if t.fresh {
			g.fresh = true
		} else if t.older != "" {
			g.olders = append(g.olders, t.older)
		} else {
			g.refs = append(g.refs, t.ref)
		}
	}
	for _, name := range order {
		g := groups[name]
		if g.ghost {
			st.havocG(name)
			if al != nil {
				al.whole["ghost:"+name] = true
			}
			continue
		}
		old := st.H(name, g.esort)
		if g.whole {
			nw := st.havocH(name, g.esort)
			if al != nil {
				al.whole[name] = true
				if strings.HasPrefix(name, "cell.") && al.head != nil {
					// a private cell that is written only before the loop (and by no closure) keeps its value
					for _, c := range st.cells {
						if "cell."+c.es == name && x.cellPrivate(c.alloc) && writtenOnlyBefore(c.alloc, al.head) {
							st.assume(eq(sel(nw, c.ptr), sel(old, c.ptr)))
						}
					}
				}
			} else if strings.HasPrefix(name, "cell.") {
				// a callee cannot reach the caller's private cells (locals whose address never escapes);
				// the ones captured by a closure handed to the callee are havocked by escapeHavoc
				for _, c := range st.cells {
					if "cell."+c.es == name && x.cellPrivate(c.alloc) {
						st.assume(eq(sel(nw, c.ptr), sel(old, c.ptr)))
					}
				}
			}
			continue
		}
		nw := st.havocH(name, g.esort)
		// frame: everything except listed refs (and, if fresh, objects born at/after nowBefore) is unchanged
		r := x.freshBound("r")
		var exc []string
		for _, ref := range g.refs {
			exc = append(exc, not(eq(r, ref)))
		}
		if g.fresh {
			exc = append(exc, app("<", app("birth", r), nowBefore))
		}
		for _, o := range g.olders {
			exc = append(exc, app(">=", app("birth", r), app("birth", o)))
		}
		if len(exc) == 0 {
			exc = append(exc, "true")
		}
		st.assume("(forall ((" + r + " Int)) (! (=> " + and(exc...) + " (= (select " + nw + " " + r + ") (select " + old + " " + r + "))) :pattern ((select " + nw + " " + r + "))))")
		if al == nil && len(g.olders) > 0 && strings.HasPrefix(name, "cell.") {
			for _, c := range st.cells {
				if "cell."+c.es == name && x.cellPrivate(c.alloc) {
					st.assume(eq(sel(nw, c.ptr), sel(old, c.ptr)))
				}
			}
		}
		if al != nil {
			al.targets[name] = append(al.targets[name], g.refs...)
			if g.fresh {
				al.targets[name] = append(al.targets[name], "fresh")
			}
			for _, o := range g.olders {
				al.targets[name] = append(al.targets[name], "older:"+o)
			}
		}
	}
}

// frameCheck emits obligations that every heap array / ghost changed since snap differs only at allowed locations.
func (x *Exec) frameCheck(st *State, snap *Snapshot, targets map[string][]string, whole map[string]bool, name string, tags []string) {
	if tags == nil {
		tags = x.tagsOf(nil)
	}
	var names []string
	for n := range st.heap {
		names = append(names, n)
	}
	sort.Strings(names)
	for _, n := range names {
		cur := st.heap[n]
		old := snap.H(x, n, x.heapSorts[n])
		if cur == old || whole[n] {
			continue
		}
		if strings.HasPrefix(n, "iter.") {
			continue // iterator ghost objects are always fresh
		}
		r := x.fresh("fr", SInt)
		var exc []string
		for _, ref := range targets[n] {
			if ref == "fresh" {
				continue
			}
			if strings.HasPrefix(ref, "older:") {
				exc = append(exc, app(">=", app("birth", r), app("birth", strings.TrimPrefix(ref, "older:"))))
				continue
			}
			exc = append(exc, not(eq(r, ref)))
		}
		// objects allocated since the snapshot are never part of the frame; reference 0 is nil (no object)
		exc = append(exc, app("<", app("birth", r), snap.now), not(eq(r, "0")))
		goal := implies(and(exc...), eq(sel(cur, r), sel(old, r)))
		x.emit(st, "frame", name+"@"+n, goal, tags, "only declared locations of "+n+" are modified", token.NoPos)
	}
	var gn []string
	for n := range st.ghost {
		gn = append(gn, n)
	}
	sort.Strings(gn)
	for _, n := range gn {
		cur := st.ghost[n]
		old := snap.G(x, n)
		if cur == old || whole["ghost:"+n] {
			continue
		}
		x.emit(st, "frame", name+"@ghost:"+n, eq(cur, old), tags, "ghost "+n+" is not modified", token.NoPos)
	}
}

// closureFacts: after a havoc, every reference stored in a havocked reference-valued heap array
// is nil or an object allocated before the current clock (the heap is closed under allocation).
func (x *Exec) closureFacts(st *State, ts []target) {
	done := map[string]bool{}
	for _, t := range ts {
		if t.ghost || done[t.array] {
			continue
		}
		done[t.array] = true
		cur, ok := st.heap[t.array]
		if !ok {
			continue
		}
		r := x.freshBound("r")
		switch {
		case x.ptrArrays[t.array] == "ptr":
			st.assume("(forall ((" + r + " Int)) (! (or (= (select " + cur + " " + r + ") 0) (< (birth (select " + cur + " " + r + ")) " + st.now + ")) :pattern ((select " + cur + " " + r + "))))")
		case x.ptrArrays[t.array] == "slice":
			st.assume("(forall ((" + r + " Int)) (! (or (= (sarr (select " + cur + " " + r + ")) 0) (< (birth (sarr (select " + cur + " " + r + "))) " + st.now + ")) :pattern ((select " + cur + " " + r + "))))")
		case t.array == "mem.ptr" || t.array == "map.ptr":
			i := x.freshBound("i")
			st.assume("(forall ((" + r + " Int) (" + i + " Int)) (! (or (= (select (select " + cur + " " + r + ") " + i + ") 0) (< (birth (select (select " + cur + " " + r + ") " + i + ")) " + st.now + ")) :pattern ((select (select " + cur + " " + r + ") " + i + "))))")
		}
	}
}

// cellPrivate: the address of the local cell a is used only to load from it, to store to it, and to bind
// it into closures that are themselves only called or handed to callees as arguments (never stored), and
// whose code uses the captured address in the same restricted way. Then no code other than the function
// itself and those closures can reach the cell.
func (x *Exec) cellPrivate(a *ssa.Alloc) bool {
	if x.privCache == nil {
		x.privCache = map[*ssa.Alloc]bool{}
	}
	if v, ok := x.privCache[a]; ok {
		return v
	}
	r := ptrUsesPrivate(a, map[ssa.Value]bool{})
	x.privCache[a] = r
	return r
}

func ptrUsesPrivate(p ssa.Value, seen map[ssa.Value]bool) bool {
	if seen[p] {
		return true
	}
	seen[p] = true
	refs := p.Referrers()
	if refs == nil {
		return false
	}
	for _, r := range *refs {
		switch i := r.(type) {
		case *ssa.DebugRef:
		case *ssa.Store:
			if i.Val == p {
				return false
			}
		case *ssa.UnOp:
			if i.Op != token.MUL {
				return false
			}
		case *ssa.MakeClosure:
			if !funcValueNotStored(i, map[ssa.Value]bool{}) {
				return false
			}
			fn := i.Fn.(*ssa.Function)
			for k, b := range i.Bindings {
				if b == p && !ptrUsesPrivate(fn.FreeVars[k], seen) {
					return false
				}
			}
		default:
			return false
		}
	}
	return true
}

// funcValueNotStored: the function value v is only called, deferred, converted, or passed as an argument.
func funcValueNotStored(v ssa.Value, seen map[ssa.Value]bool) bool {
	if seen[v] {
		return true
	}
	seen[v] = true
	refs := v.Referrers()
	if refs == nil {
		return false
	}
	for _, r := range *refs {
		switch i := r.(type) {
		case *ssa.DebugRef:
		case *ssa.Call, *ssa.Defer:
			// callee position or argument: both fine (no retention by callees: their frames would show it)
		case *ssa.ChangeType:
			if !funcValueNotStored(i, seen) {
				return false
			}
		default:
			return false
		}
	}
	return true
}

// writtenOnlyBefore: every store to the local cell a happens in a block that strictly dominates the loop
// head, and no closure that captures a stores to it.
func writtenOnlyBefore(a *ssa.Alloc, head *ssa.BasicBlock) bool {
	if a.Block() == nil || a.Block().Parent() != head.Parent() {
		return false
	}
	for _, r := range *a.Referrers() {
		switch i := r.(type) {
		case *ssa.Store:
			if i.Block() == head || !i.Block().Dominates(head) {
				return false
			}
		case *ssa.MakeClosure:
			fn := i.Fn.(*ssa.Function)
			for j, b := range i.Bindings {
				if b == ssa.Value(a) && storedFreeVars(fn, map[*ssa.Function]bool{})[j] {
					return false
				}
			}
		}
	}
	return true
}
